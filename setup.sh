#!/bin/sh
# Build the verification venv offline: python of /venv + repo deps via .pth + crosshair/z3 from the wheelhouse.
set -e
cd "$(dirname "$0")"
if [ ! -x .venv/bin/python ] || [ ! -f .venv/.ok ]; then
  rm -rf .venv
  /venv/bin/python -m venv .venv
  SP=$(.venv/bin/python -c 'import sysconfig; print(sysconfig.get_paths()["purelib"])')
  printf "import site; site.addsitedir('/venv/lib/python3.12/site-packages')\n" > "$SP/zz_repo_deps.pth"
  PIP_NO_INDEX=1 .venv/bin/pip install -q --no-index --find-links /opt/veriftools/wheels crosshair-tool z3-solver >/dev/null 2>&1 || echo "warning: crosshair/z3 wheels not installed (CrossHair cross-checks will be reported as skipped)"
  touch .venv/.ok
fi
.venv/bin/python -c 'import lark; print("venv ok, lark", lark.__version__)'
