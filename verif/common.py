"""Shared plumbing: evidence files, worker pool, replay scripts, known findings, exit codes."""
import json, os, sys, time, random, traceback, hashlib, subprocess
import multiprocessing as mp

REPO = os.environ.get('VERIF_REPO', '/repo')
if REPO not in sys.path:
    sys.path.insert(0, REPO)
ROOT = os.path.dirname(os.path.dirname(os.path.abspath(__file__)))

EXIT_OK, EXIT_VIOLATION, EXIT_INCONCLUSIVE = 0, 1, 3

SEED = int(os.environ.get('VERIF_SEED', '0') or 0)


def rng(tag=''):
    return random.Random('%d/%s' % (SEED, tag))


def known_findings():
    with open(os.path.join(ROOT, 'known_findings.json')) as f:
        return json.load(f)


class Report:
    """collects what a check run covered and writes evidence/<id>.json"""

    def __init__(self, pid, tier, level='model_checking'):
        self.pid, self.tier, self.level = pid, tier, level
        self.t0 = time.time()
        self.cov = dict(obligations=0, discharged=0, queries=0, solver_time_s=0.0, evaluations=0, distinct_nontrivial=0,
                        samples=[], functions_encoded=[], bounds={}, inconclusive=[], twins={}, explanation='',
                        trusted_base=[], traces_validated_against_impl=0, programs=0, disagreements_checked=0)
        self.assumptions = []
        self.violations = []     # (what, replay path)
        self.known = []
        self._distinct = set()
        self.encoded = set()

    # -- bookkeeping
    def obligation(self, key, verdict, solver_s=0.0, queries=1, sample=None, nontrivial=True):
        c = self.cov
        c['obligations'] += 1
        c['queries'] += queries
        c['solver_time_s'] += solver_s
        c['evaluations'] += 1
        if verdict == 'unsat':
            c['discharged'] += 1
        elif verdict not in ('sat',):
            c['inconclusive'].append('%s: %s' % (key, verdict))
        if nontrivial:
            self._distinct.add(key)
        if sample is not None:
            if len(c['samples']) < 12:
                c['samples'].append(sample)
            elif isinstance(sample, dict) and solver_s:
                # beyond the first dozen, keep the six obligations that cost the solver most
                sl = c.setdefault('slowest', [])
                sl.append(dict(sample, solver_s=round(solver_s, 2)))
                sl.sort(key=lambda x: -x.get('solver_s', 0))
                del sl[6:]

    def inconclusive(self, what):
        self.cov['inconclusive'].append(str(what)[:400])

    def encoded_add(self, names):
        self.encoded.update(names)

    def violation(self, what, replay):
        self.violations.append((what, replay))
        print('VIOLATION property=%s replay=%s' % (self.pid, replay), flush=True)
        print('   ' + what, flush=True)

    def known_finding(self, what):
        self.known.append(what)
        print('KNOWN-FINDING: property=%s %s' % (self.pid, what), flush=True)

    def finish(self):
        c = self.cov
        c['distinct_nontrivial'] = len(self._distinct)
        c.setdefault('rule', 'one case per obligation key (formula / bound / presentation / fork); it counts as non-trivial when the run reports it so '
                             '(for model-checking obligations: the decided result vector is not constant over the structures of the bound, i.e. both '
                             'polarities of a result bit are satisfiable); keys are de-duplicated')
        c['functions_encoded'] = sorted(self.encoded)
        c['solver_time_s'] = round(c['solver_time_s'], 3)
        c['known_findings_reported'] = list(self.known)
        if not c['samples']:
            c['samples'] = ['(no obligation produced a sample)']
        ev = dict(property_id=self.pid, tier=self.tier, seed=SEED, level=self.level, coverage=c,
                  assumptions=self.assumptions, wall_s=round(time.time() - self.t0, 2), violations=len(self.violations))
        os.makedirs(os.path.join(ROOT, 'evidence'), exist_ok=True)
        path = os.path.join(ROOT, 'evidence', '%s.json' % self.pid)
        with open(path + '.tmp', 'w') as f:
            json.dump(ev, f, indent=1, default=str)
        os.replace(path + '.tmp', path)
        if self.violations:
            code = EXIT_VIOLATION
        elif c['inconclusive'] or c['discharged'] != c['obligations']:
            code = EXIT_INCONCLUSIVE
        else:
            code = EXIT_OK
        print('%s %s: obligations=%d discharged=%d queries=%d solver=%.1fs wall=%.1fs inconclusive=%d violations=%d known=%d -> exit %d' % (
            self.pid, self.tier, c['obligations'], c['discharged'], c['queries'], c['solver_time_s'], time.time() - self.t0,
            len(c['inconclusive']), len(self.violations), len(self.known), code), flush=True)
        for x in c['inconclusive'][:10]:
            print('   inconclusive:', x, flush=True)
        return code


def write_replay(pid, body, tag=None):
    """body: python source of a stand-alone script (exit 1 = the violation reproduces). Returns its path."""
    d = os.path.join(ROOT, 'replays', pid)
    os.makedirs(d, exist_ok=True)
    h = tag or hashlib.sha1(body.encode()).hexdigest()[:10]
    path = os.path.join(d, '%s.py' % h)
    with open(path, 'w') as f:
        f.write('#!/usr/bin/env python\n# replay for property %s: run with the repository interpreter; exit 1 = violation reproduces\n' % pid)
        f.write('import sys\nsys.path.insert(0, %r)\n' % REPO)
        f.write(body)
    return path


def run_replay(path, timeout=120):
    """execute a replay natively in a fresh interpreter; True if it reproduces (exit 1)"""
    try:
        r = subprocess.run([sys.executable, path], capture_output=True, text=True, timeout=timeout)
    except subprocess.TimeoutExpired:
        return False, 'timeout'
    # a crash of the script is not a reproduction: the script must say so itself
    return (r.returncode == 1 and 'VIOLATION of' in r.stdout), (r.stdout + r.stderr)[-2000:]


# ---------------------------------------------------------------- worker pool
def _run_task(args):
    fn, a = args
    t0 = time.time()
    try:
        r = fn(*a)
        return ('ok', r, time.time() - t0)
    except BaseException as e:      # the evaluator's Unsupported / MemoryError etc. -> inconclusive, never green
        return ('err', '%s: %s | %s' % (type(e).__name__, str(e)[:300], traceback.format_exc(limit=-4)[-600:]), time.time() - t0)


def pmap(fn, tasks, workers=None, mem_heavy=False):
    """run fn(*task) for every task, each in its own forked process; yields (task, status, result, secs) as they finish.
    Own scheduler instead of multiprocessing.Pool: the parent stays single-threaded (forking a threaded parent deadlocked
    children on inherited locks), a worker that dies or exceeds the per-task time limit becomes an 'err' result
    (= inconclusive), never a hang."""
    import pickle, tempfile, shutil, signal
    tasks = list(tasks)
    if not tasks:
        return
    workers = workers or min(16, os.cpu_count() or 4)
    if mem_heavy:
        workers = min(workers, 8)
    limit = float(os.environ.get('VERIF_TASK_TIMEOUT', '5400'))
    tmp = tempfile.mkdtemp(prefix='verif_pmap_')
    running = {}            # pid -> (index, start time)
    nxt = 0
    done = 0
    try:
        while done < len(tasks):
            while nxt < len(tasks) and len(running) < workers:
                sys.stdout.flush()
                sys.stderr.flush()
                pid = os.fork()
                if pid == 0:
                    code = 0
                    try:
                        res = _run_task((fn, tasks[nxt]))
                        with open(os.path.join(tmp, '%d.pkl' % nxt), 'wb') as f:
                            pickle.dump(res, f)
                    except BaseException as e:
                        try:
                            with open(os.path.join(tmp, '%d.pkl' % nxt), 'wb') as f:
                                pickle.dump(('err', 'worker failed: %s: %s' % (type(e).__name__, str(e)[:300]), 0.0), f)
                        except BaseException:
                            code = 1
                    finally:
                        sys.stdout.flush()
                        os._exit(code)
                running[pid] = (nxt, time.time())
                nxt += 1
            # reap
            try:
                pid, status = os.waitpid(-1, os.WNOHANG)
            except ChildProcessError:
                pid = 0
            if pid == 0:
                now = time.time()
                for p_, (i, t0) in list(running.items()):
                    if now - t0 > limit:
                        try:
                            os.kill(p_, signal.SIGKILL)
                        except OSError:
                            pass
                time.sleep(0.05)
                continue
            if pid not in running:
                continue            # some other child (e.g. a solver process reaped late)
            i, t0 = running.pop(pid)
            path = os.path.join(tmp, '%d.pkl' % i)
            try:
                with open(path, 'rb') as f:
                    st, r, secs = pickle.load(f)
                os.unlink(path)
            except Exception:
                st, r, secs = 'err', 'worker ended without a result (signal %d, exit %d, %.0fs%s)' % (
                    status & 0x7f, status >> 8, time.time() - t0, ', killed at the per-task time limit' if time.time() - t0 > limit else ''), time.time() - t0
            done += 1
            if os.environ.get('VERIF_DEBUG') and secs > float(os.environ['VERIF_DEBUG']):
                print('   [slow task %.0fs] %s' % (secs, str(tasks[i])[:200]), flush=True)
            yield tasks[i], st, r, secs
    finally:
        for p_ in running:
            try:
                os.kill(p_, signal.SIGKILL)
            except OSError:
                pass
        shutil.rmtree(tmp, ignore_errors=True)


def chunks(xs, k):
    xs = list(xs)
    return [xs[i:i + k] for i in range(0, len(xs), k)]
