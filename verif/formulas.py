"""Formula sets (as text in the repository's own concrete syntax; parsed by the real parsers)."""
import itertools

ATOMS2 = ['p', 'q']
ATOMS4 = ['p', 'q', 'true', 'false']

CTL_UN = ['not %s', 'A X %s', 'E X %s', 'A F %s', 'E F %s', 'A G %s', 'E G %s']
CTL_BI = ['(%s and %s)', '(%s or %s)', '(%s --> %s)', 'A(%s U %s)', 'E(%s U %s)', 'A(%s R %s)', 'E(%s R %s)']


def par(s):
    return s if (s in ATOMS4 or (s.startswith('(') and s.endswith(')') and _balanced(s))) else '(%s)' % s


def _balanced(s):
    d = 0
    for i, c in enumerate(s):
        d += (c == '(') - (c == ')')
        if d == 0 and i < len(s) - 1:
            return False
    return True


def ctl_level1(atoms):
    out = [u % a for u in CTL_UN for a in atoms]
    out += [b % (x, y) for b in CTL_BI for x in atoms for y in atoms]
    return out


def ctl_phi1():
    return ATOMS4 + ctl_level1(ATOMS4)


def ctl_phi2_quick():
    """depth <= 2: every operator over every depth-1 formula over {p,q}; binary operators with one deep child"""
    l1 = ctl_level1(ATOMS2)
    out = [u % par(s) for u in CTL_UN for s in l1]
    for b in CTL_BI:
        for s in l1:
            for a in ATOMS2:
                out.append(b % (par(s), a))
                out.append(b % (a, par(s)))
    return out


def ctl_phi2_full():
    l1 = ctl_level1(ATOMS4)
    out = [u % par(s) for u in CTL_UN for s in l1]
    for b in CTL_BI:
        for s in l1:
            for a in ATOMS4:
                out.append(b % (par(s), a))
                out.append(b % (a, par(s)))
    return out


def ctl_pairs():
    """both children deep: operator pairs over p,q (196 binary-of-unary combos)"""
    un = [u % 'p' for u in CTL_UN] + [u % 'q' for u in CTL_UN]
    out = []
    for b in CTL_BI:
        for x in un[:7]:
            for y in un[7:]:
                out.append(b % (par(x), par(y)))
    return out


def ctl_depth3_one_atom():
    l1 = [u % 'p' for u in CTL_UN] + [b % ('p', 'p') for b in CTL_BI]
    l2 = [u % par(s) for u in CTL_UN for s in l1]
    l3 = [u % par(s) for u in CTL_UN for s in l2]
    return l3


CTL_SINGLE = ['p', 'true', 'false', 'not p', '(p and q)', '(p or q)', '(p --> q)', 'A X p', 'E X p', 'A F p', 'E F p', 'A G p', 'E G p',
              'A(p U q)', 'E(p U q)', 'A(p R q)', 'E(p R q)']

# ------------------------------------------------------------------ LTL path formulas
LTL_UN = ['not %s', 'X %s', 'F %s', 'G %s']
LTL_BI = ['(%s and %s)', '(%s or %s)', '(%s --> %s)', '(%s U %s)', '(%s R %s)']


def ltl_level1(atoms):
    return [u % a for u in LTL_UN for a in atoms] + [b % (x, y) for b in LTL_BI for x in atoms for y in atoms]


def ltl_paths(depth, atoms=ATOMS2, deep_both=False):
    lv = {0: list(atoms)}
    lv[1] = ltl_level1(atoms)
    for d in range(2, depth + 1):
        prev = lv[d - 1]
        cur = [u % par(s) for u in LTL_UN for s in prev]
        for b in LTL_BI:
            for s in prev:
                for a in atoms:
                    cur.append(b % (par(s), a))
                    cur.append(b % (a, par(s)))
        lv[d] = cur
    return lv


def count_elementary(f):
    """number of elementary formulas (X h, X(h U g)) of the restricted form of not f: what the tableau cost depends on"""
    from pyModelChecking.language import LNot
    g = LNot(f).get_equivalent_restricted_formula()
    el = set()

    def walk(h):
        k = type(h).__name__
        if k == 'X':
            el.add(str(h))
        if k == 'U':
            el.add('X' + str(h))
        for s in h.subformulas():
            walk(s)
    walk(g)
    return len(el)


def temporal_ops(f):
    k = type(f).__name__
    return (1 if k in ('X', 'F', 'G', 'U', 'R') else 0) + sum(temporal_ops(s) for s in f.subformulas())
