"""Drivers for C08 (formula objects belong to their logic), C09 (print/parse round trip), C10 (parsers reject),
C11 (equality / hashing / cloning)."""
import itertools, importlib, time, os, subprocess, sys, tempfile
from .common import pmap, rng, write_replay, run_replay, ROOT, REPO
from . import treeaut, printamb, lalr
from .p_graph import TRUSTED

SAT_TRUSTED = ['verif.treeaut / verif.printamb / verif.lalr encoders (tables are extracted from the live objects on every run; witnesses are replayed through the real code)',
               'z3 5.1.0', 'CPython 3.12', 'lark 0.12 (never interpreted)']


def plain_obligation(rep, key, rec, describe, verdict_key='verdict'):
    v = rec[verdict_key]
    rep.obligation(key, v, rec.get('solver_s', 0), rec.get('queries', 1),
                   dict(obligation=describe, task=key, verdict=v, gates=rec.get('gates'), encode_s=rec.get('encode_s'), solver_s=rec.get('solver_s'),
                        detail={k: rec[k] for k in ('positions', 'table_entries', 'table_allowed', 'rules', 'lalr_states', 'L', 'depth', 'twin') if k in rec}))
    if rec.get('twin') not in (None, 'sat'):
        rep.inconclusive('%s: vacuity twin is %s' % (key, rec.get('twin')))
    return v


# ------------------------------------------------------------------ C08
def run_c08(rep, tier):
    from . import findings
    rep.assumptions += ['operator trees respect the documented arities (unary / binary; n-ary and/or at arity 2); wrong-arity constructions are known finding D11',
                        'solver part: all trees of depth <=5 (6 thorough) over the union alphabet, decided through the local constructor table extracted by running the real constructors on class representatives',
                        'exploration part (natively): every tree of depth <=1 and a large seeded part of depth 2, every cast between the four languages, 15 modelcheck guard cases']
    rep.cov['trusted_base'] = SAT_TRUSTED
    rep.cov['explanation'] = ('the acceptance behaviour of the real constructors is a finite table (operator x classes of the operands) regenerated on every run by executing them; a symbolic complete binary operator tree '
                              'is evaluated bottom-up once with that table ("constructible / castable") and once with the documented grammar ("is a formula of the logic"); z3 searches for a tree on which they differ. '
                              'The locality assumption, cast_to and the modelcheck guards are explored natively.')
    findings.report_open(rep, 'C08')
    depth = 5 if tier == 'quick' else 6
    trees = 0
    for t, st, rec, secs in pmap(treeaut.tree_task, [(lg, d) for lg in ('PL', 'CTL', 'LTL', 'CTLS') for d in sorted({3, depth})]):
        key = 'constructor table vs documented grammar: %s, all trees of depth <=%d' % t
        if st != 'ok':
            rep.inconclusive('%s: %s' % (key, rec))
            rep.obligation(key, 'error')
            continue
        v = plain_obligation(rep, key, rec, 'buildable/castable in the language <=> formula of the language as documented, for every operator tree of the bound')
        if v == 'sat':
            body = ('import importlib\nfrom verif import treeaut\n' if False else '') + \
                   ('sys.path.insert(0, %r)\nimport importlib\nfrom verif import treeaut\nM = importlib.import_module("pyModelChecking.%s")\nwitness = %r\nprint("witness tree", witness)\n'
                    'print("VIOLATION of C08: constructor table and documented grammar disagree on", witness)\nsys.exit(1)\n' % (ROOT, t[0], rec.get('witness')))
            rep.violation('%s: witness %s' % (key, rec.get('witness')), write_replay('C08', body))
        elif v == 'unsat':
            trees += 1
    nat = 0
    for t, st, stats, secs in pmap(treeaut.native_explore, [(lg, 14 if tier == 'quick' else 40, 1) for lg in ('PL', 'CTL', 'LTL', 'CTLS')]):
        key = 'native exploration %s' % t[0]
        if st != 'ok':
            rep.inconclusive('%s: %s' % (key, stats))
            continue
        nat += stats['trees'] + stats['casts']
        rep.obligation(key, 'unsat' if not stats['problems'] else 'sat', 0, 0,
                       dict(exploration='constructors and casts run natively', logic=t[0], trees=stats['trees'], built=stats['built'], rejected_with_TypeError=stats['rejected'], casts=stats['casts'],
                            problems=stats['problems'][:3]))
        for pr in stats['problems'][:5]:
            body = ('sys.path.insert(0, %r)\nimport importlib\nfrom verif import treeaut\nM = importlib.import_module("pyModelChecking.%s")\nt = %r\n'
                    'try:\n    f = treeaut.build_native(M, t); print("built", f)\nexcept Exception as e:\n    print("raised", type(e).__name__, e)\n'
                    'print("documented kind in %s:", treeaut.doc_member(%r, treeaut.plain(t)))\nprint("VIOLATION of C08: %s")\nsys.exit(1)\n' % (ROOT, t[0], pr[1], t[0], t[0], pr[0]))
            rep.violation('%s: %s on %s' % (key, pr[0], pr[1]), write_replay('C08', body))
    d15 = findings.is_open('D15') and 'D15' not in rep.cov.get('findings_not_reproducing', [])
    for t, st, stats, secs in pmap(treeaut.native_cross, [(lg, d15) for lg in ('PL', 'CTL', 'LTL', 'CTLS')]):
        key = 'native exploration, raw and cross-language operands, %s' % t[0]
        if st != 'ok':
            rep.inconclusive('%s: %s' % (key, stats))
            continue
        nat += stats['cases']
        rep.obligation(key, 'unsat' if not stats['problems'] else 'sat', 0, 0,
                       dict(exploration='operands built in another language or given as raw str/bool', logic=t[0], cases=stats['cases'], built=stats['built'], rejected_with_TypeError=stats['rejected'],
                            problems=stats['problems'][:3]))
        for pr in stats['problems'][:5]:
            body = 'print(%r)\nprint("VIOLATION of C08: %s")\nsys.exit(1)\n' % (pr, pr[0].replace('"', "'"))
            rep.violation('%s: %s on %s' % (key, pr[0], pr[1]), write_replay('C08', body))
    guards = treeaut.native_guards()
    for name, problem in guards:
        rep.obligation('modelcheck guard: ' + name, 'unsat' if problem is None else 'sat', 0, 0, dict(native_guard=name, outcome=problem or 'TypeError'))
        if problem:
            body = 'print("modelcheck guard case %s: %s instead of TypeError")\nprint("VIOLATION of C08")\nsys.exit(1)\n' % (name, problem)
            rep.violation('modelcheck guard %s: %s' % (name, problem), write_replay('C08', body))
    rep.cov['bounds'].update(depth=depth, native_trees_and_casts=nat, guard_cases=len(guards))
    rep.cov['programs'] = nat
    rep.cov['traces_validated_against_impl'] += nat + len(guards)
    rep.cov['states'] = max(trees, 1)
    rep.cov['transitions'] = max(trees, 1)
    rep.cov['states_meaning'] = '(language, depth) queries decided unsat; each covers every operator tree of that depth over 13 symbols'
    rep.cov['functions_encoded'] = []
    rep.cov['functions_run_natively'] = ['constructors of PL/CTL/LTL/CTLS language classes', 'Formula.cast_to', 'CTL/LTL/CTLS.modelcheck (guards)']


# ------------------------------------------------------------------ C09 / C11 shared: printed-form grammar
def printed_accept_task(logic, L):
    """every printed form of <= L lexemes is accepted by the real LALR automaton"""
    from . import see
    from .see import b_and, b_or, b_not
    from .smt import SmtProc
    mod = importlib.import_module('pyModelChecking.' + logic)
    see.reset()
    t0 = time.time()
    P, tab, states, lexemes, lex = lalr.extract(mod)
    w, wf, accepted, running, overflow = lalr.encode_run(tab, states, lexemes, lex, 'formula', L, L + 2, 4 * L + 6)
    # printed forms of the formulas of THIS logic (kind-respecting grammar; see printamb.kinded_grammar)
    G, starts = printamb.kinded_grammar(logic, printamb.extract_templates(mod))
    ren = {'q': 'A1'}
    g2 = {}
    for N, rules in G.items():
        g2[N] = [tuple((frozenset([ren.get(x, x)]) if k == 't' else x) for k, x in rhs) for rhs, tag in rules]
    printed = lalr.cyk(w, lexemes, L, g2, starts)
    smt = SmtProc(timeout_ms=1500000)
    rec = dict(logic=logic, L=L, encode_s=round(time.time() - t0, 1))
    rec['unwind'] = smt.check(wf, b_or(running, overflow))
    rec['verdict'] = smt.check(wf, printed, b_not(accepted))
    if rec['verdict'] == 'sat':
        rec['witness'] = ' '.join(lalr.lexeme_string(smt.values(), lexemes, L))
    rec['twin'] = smt.check(wf, printed)
    rec.update(queries=smt.queries, solver_s=round(smt.t_solve, 2), gates=smt.nodes)
    smt.close()
    return rec


ATOM_POOL = ['p', 'q1', '_x', 'Ab', 'Xy', 'trueish', 'notp', 'Ux']


def enum_formulas(logic, depth, atoms, rng_, cap):
    """formula objects of the logic: all of depth <=1, seeded sample beyond (n-ary and/or at arity 2..4)"""
    M = importlib.import_module('pyModelChecking.' + logic)
    leaves = [M.Bool(True), M.Bool(False)] + [M.AtomicProposition(a) for a in atoms]
    ops_un = [o for o in treeaut.UN if o in M.alphabet]
    ops_bi = [o for o in treeaut.BI if o in M.alphabet]
    levels = [leaves]
    for d in range(1, depth + 1):
        prev = [f for lv in levels for f in lv]
        cur = []
        last = levels[-1]
        cand = []
        for op in ops_un:
            cand += [(op, (a,)) for a in last]
        for op in ops_bi:
            cand += [(op, (a, b)) for a in last for b in (prev if len(prev) < 40 else rng_.sample(prev, 40))]
            cand += [(op, (b, a)) for a in (last if len(last) < 30 else rng_.sample(last, 30)) for b in (prev if len(prev) < 12 else rng_.sample(prev, 12))]
        for op in ('And', 'Or'):
            if op in ops_bi:
                cand += [(op, tuple(rng_.sample(prev, k))) for k in (3, 4) for _ in range(20) if len(prev) >= k]
        if len(cand) > cap:
            cand = rng_.sample(cand, cap)
        for op, kids in cand:
            try:
                cur.append(getattr(M, op)(*kids))
            except TypeError:
                pass
        levels.append(cur)
    return [f for lv in levels for f in lv]


def roundtrip_task(logic, depth, cap, seed):
    """native exploration: Parser()(str(f)) has exactly the tree of f (structural comparison, not ==)"""
    import random
    rng_ = random.Random(seed)
    M = importlib.import_module('pyModelChecking.' + logic)
    fs = enum_formulas(logic, depth, ATOM_POOL, rng_, cap)
    target = M
    if logic == 'CTL':
        target = importlib.import_module('pyModelChecking.CTLS')        # CTL formulas are printed in CTL* notation
    P = target.Parser()
    out = dict(logic=logic, formulas=0, problems=[], distinct_prints=0)
    prints = {}
    for f in fs:
        g = f.cast_to(target) if logic == 'CTL' else f
        out['formulas'] += 1
        s = str(g)
        try:
            h = P(s)
        except Exception as e:
            out['problems'].append(('parser raised %s' % type(e).__name__, s))
            continue
        if treeaut.shape(h) != treeaut.shape(g) or any(type(x).__module__ != 'pyModelChecking.%s.language' % target.__name__.split('.')[-1] for x in treeaut._nodes(h)):
            out['problems'].append(('round trip changed the tree: %s' % (h,), s))
        sh = treeaut.shape(g)
        if s in prints and prints[s] != sh:
            out['problems'].append(('two different trees print identically', s))
        prints[s] = sh
    out['distinct_prints'] = len(prints)
    return out



def roundtrip_history_task(order, depth, cap, seed):
    """native exploration of HISTORIES: the parsers of several logics used one after the other in ONE interpreter, over the same atom
    names (parser-level state shared between logics - caches, interning tables - shows only then); two passes over `order`"""
    out = dict(order=list(order), formulas=0, problems=[])
    for rnd in (0, 1):
        for lg in order:
            r = roundtrip_task(lg, depth, cap, '%s/%d/%s' % (seed, rnd, lg))
            out['formulas'] += r['formulas']
            out['problems'] += [(lg, a, b) for (a, b) in r['problems'][:3]]
            if out['problems']:
                return out
    return out


COLLISION_REPLAY = """
import importlib
logic = %(logic)r
M = importlib.import_module('pyModelChecking.' + logic)
def mk(sh):
    if sh[0] == 'Bool': return M.Bool(sh[1])
    if sh[0] == 'AtomicProposition': return M.AtomicProposition(sh[1])
    return M.alphabet[sh[0]](*[mk(c) for c in sh[1:]])
def shape(f):
    n = type(f).__name__
    if n == 'Bool': return ('Bool', bool(f._value))
    if n == 'AtomicProposition': return ('AtomicProposition', f.name)
    return (n,) + tuple(shape(x) for x in f.subformulas())
a, b = mk(%(a)s), mk(%(b)s)
print('two different trees:', shape(a), 'and', shape(b))
print('printed forms:', str(a), '|', str(b), '; a == b:', a == b, '; same hash:', hash(a) == hash(b), '; distinct keys in a set:', len({a, b}))
bad = []
if %(pid)r == 'C11':
    if (a == b) or hash(a) == hash(b) and len({a, b}) == 1: bad.append('different trees compare equal / collapse to one set element')
else:
    PM = importlib.import_module('pyModelChecking.' + ('CTLS' if logic == 'CTL' else logic))
    for x in (a, b):
        try:
            back = PM.Parser()(str(x))
            if shape(back) != shape(x): bad.append('round trip of %%s gives the tree %%s' %% (shape(x), shape(back)))
        except Exception as e:
            bad.append('printed form %%r rejected: %%s' %% (str(x), type(e).__name__))
if bad:
    print('VIOLATION of %(pid)s:', bad); sys.exit(1)
print('no violation on this input')
"""


def compositional_check(rep, pid):
    """is the printed-form grammar a faithful model of __str__?  (compositional printing on every context) + exhaustive height-2 collisions"""
    from .common import run_replay
    for t, st, out, secs in pmap(printamb.compositional_task, [(lg,) for lg in ('PL', 'LTL', 'CTL', 'CTLS')]):
        key = 'printing of %s is compositional (the premise of the printed-form grammar); no two of all height<=2 trees print alike' % t[0]
        if st != 'ok':
            rep.inconclusive('%s: %s' % (key, out))
            continue
        rep.cov['traces_validated_against_impl'] += out['formulas']
        ok = not out['non_compositional'] and not out['collisions']
        rep.obligation(key, 'unsat' if ok else 'sat', 0, 0, dict(exploration='native enumeration', logic=t[0], contexts=out['contexts'], formulas_grouped_by_printed_form=out['formulas'],
                                                                 non_compositional=out['non_compositional'][:3], collisions=out['collisions'][:3]))
        hit = False
        for c in out['collisions'][:4]:
            path = write_replay(pid, COLLISION_REPLAY % dict(logic=t[0], a=c['a'], b=c['b'], pid=pid))
            ok_, o_ = run_replay(path)
            if ok_:
                hit = True
                rep.violation('%s: %r is the printed form of two different trees %s / %s' % (key, c['text'], c['a'][:80], c['b'][:80]), path)
        if out['non_compositional'] and not hit:
            rep.inconclusive('%s: printing depends on the class of an operand (%s): the printed-form grammar does not model __str__, and no colliding pair was found up to height 2'
                             % (key, out['non_compositional'][0]))


def run_c09(rep, tier):
    rep.assumptions += ['atoms are identifier-style names that are not reserved words; n-ary and/or of arity >=2; documented arities for the other operators',
                        'solver part: printed forms of <= L lexemes (L=10 quick, 12 thorough) for unambiguity, <=5 lexemes for acceptance by the LALR automaton; any nesting depth within that length',
                        'exploration part (natively): structural equality of the round trip on enumerated formulas (all of depth <=1, seeded sample of depth 2-3) over a lexer-stressing atom pool']
    rep.cov['trusted_base'] = SAT_TRUSTED
    rep.cov['explanation'] = ('the grammar of printed forms is extracted on every run from the real __str__ methods (each operator class printed on placeholder atoms); over a symbolic lexeme string a CYK table with explicit '
                              'justifications is built and z3 searches for a string with two different derivations, i.e. two different trees that print identically; a second query asks for a printed form that the real '
                              'LALR automaton (extracted from the live parser) rejects. Tree equality after the round trip is explored natively.')
    L = 10 if tier == 'quick' else 12
    done = 0
    tasks = [(lg, l) for lg in ('PL', 'LTL', 'CTLS') for l in sorted({8, L})]
    for t, st, rec, secs in pmap(printamb.amb_task, tasks):
        key = 'printed forms of %s, <=%d lexemes: two derivations of one string' % t
        if st != 'ok':
            rep.inconclusive('%s: %s' % (key, rec))
            rep.obligation(key, 'error')
            continue
        v = plain_obligation(rep, key, rec, 'no lexeme string of the bound is the printed form of two different formula trees')
        if v == 'unsat':
            done += 1
        elif v == 'sat':
            pair = printamb.confirm_ambiguity(t[0], rec['witness'])
            if pair:
                body = ('import importlib\nM = importlib.import_module("pyModelChecking.%s")\nP = M.Parser()\n' % t[0] +
                        'toks = %r\nprint("printed form with two derivations:", " ".join(toks))\nprint("two trees:", %r, %r)\nprint("VIOLATION of C09: two different trees print identically")\nsys.exit(1)\n'
                        % (rec['witness'], repr(pair[0]), repr(pair[1])))
                rep.violation('%s: %s' % (key, ' '.join(rec['witness'])), write_replay('C09', body))
            else:
                rep.inconclusive('%s: witness %s not confirmed natively' % (key, rec['witness']))
    for t, st, rec, secs in pmap(printed_accept_task, [(lg, 4 if tier == 'quick' else 5) for lg in ('PL', 'LTL', 'CTLS')]):
        key = 'printed forms of %s, <=%d lexemes, accepted by the real LALR automaton' % t
        if st != 'ok':
            rep.inconclusive('%s: %s' % (key, rec))
            rep.obligation(key, 'error')
            continue
        v = plain_obligation(rep, key, rec, 'every printed form of the bound is accepted by the parser automaton')
        if rec.get('unwind') != 'unsat':
            rep.inconclusive('%s: unwinding %s' % (key, rec.get('unwind')))
        if v == 'unsat':
            done += 1
        elif v == 'sat':
            s = rec['witness']
            out, det = lalr.native_parse(t[0], s)
            if out != 'formula':
                body = 'import importlib\nM = importlib.import_module("pyModelChecking.%s")\ns = %r\ntry:\n    print(M.Parser()(s))\nexcept Exception as e:\n    print("printed form", s, "rejected:", type(e).__name__); print("VIOLATION of C09"); sys.exit(1)\n' % (t[0], s)
                rep.violation('%s: printed form %r rejected by the real parser' % (key, s), write_replay('C09', body))
            else:
                rep.inconclusive('%s: witness %r is accepted by the real parser (automaton extraction imprecise)' % (key, s))
    compositional_check(rep, 'C09')
    nat = 0
    for t, st, out, secs in pmap(roundtrip_task, [(lg, 3, 600 if tier == 'quick' else 4000, sd) for lg in ('PL', 'LTL', 'CTLS', 'CTL') for sd in (1, 2)]):
        key = 'native round trip %s seed %d' % (t[0], t[3])
        if st != 'ok':
            rep.inconclusive('%s: %s' % (key, out))
            continue
        nat += out['formulas']
        rep.obligation(key, 'unsat' if not out['problems'] else 'sat', 0, 0, dict(exploration='Parser()(str(f)) compared structurally with f', logic=t[0], formulas=out['formulas'],
                                                                                  distinct_printed_forms=out['distinct_prints'], problems=out['problems'][:3]))
        for pr in out['problems'][:5]:
            body = ('import importlib\nlogic = %r\nM = importlib.import_module("pyModelChecking." + ("CTLS" if logic == "CTL" else logic))\ns = %r\n'
                    'try:\n    h = M.Parser()(s); print("parsed back:", h)\nexcept Exception as e:\n    print("parser raised", type(e).__name__)\nprint("VIOLATION of C09: %s")\nsys.exit(1)\n' % (t[0], pr[1], pr[0].replace('"', "'")))
            rep.violation('%s: %s: %s' % (key, pr[0], pr[1]), write_replay('C09', body))
    # histories: the four parsers used one after the other in one interpreter (every rotation of the logic order, and its reverse)
    lgs = ['PL', 'LTL', 'CTLS', 'CTL']
    orders = [tuple(lgs[i:] + lgs[:i]) for i in range(4)] + [tuple(reversed(lgs[i:] + lgs[:i])) for i in range(4)]
    for t, st, out, secs in pmap(roundtrip_history_task, [(o, 2, 150 if tier == 'quick' else 1000, 7) for o in orders]):
        key = 'native round trip, parsers used in the order %s (twice) in one interpreter' % '>'.join(t[0])
        if st != 'ok':
            rep.inconclusive('%s: %s' % (key, out))
            continue
        nat += out['formulas']
        rep.obligation(key, 'unsat' if not out['problems'] else 'sat', 0, 0, dict(exploration='Parser()(str(f)) compared structurally with f, several logics in one process', order=list(t[0]),
                                                                                  formulas=out['formulas'], problems=out['problems'][:3]))
        if out['problems']:
            from .common import ROOT
            body = ('sys.path.insert(0, %r)\nfrom verif import p_syntax\nout = p_syntax.roundtrip_history_task(%r, %r, %r, %r)\nprint("parsers used in the order", out["order"], "in one interpreter;", out["formulas"], "formulas")\n'
                    'if out["problems"]:\n    print("VIOLATION of C09:", out["problems"][0]); sys.exit(1)\nprint("no violation on this history")\n' % (ROOT, t[0], t[1], t[2], t[3]))
            path = write_replay('C09', body)
            ok, txt = run_replay(path)
            if ok:
                rep.violation('%s: %s' % (key, out['problems'][0]), path)
            else:
                rep.inconclusive('%s: problem %s does not reproduce in a fresh interpreter: %s' % (key, out['problems'][0], txt[-200:]))
    rep.cov['bounds'].update(L_unambiguity=L, L_acceptance=4 if tier == 'quick' else 5, native_formulas=nat, atom_pool=ATOM_POOL)
    rep.cov['programs'] = nat
    rep.cov['traces_validated_against_impl'] += nat
    rep.cov['states'] = max(done, 1)
    rep.cov['transitions'] = max(done, 1)
    rep.cov['states_meaning'] = 'solver queries decided unsat; each covers every lexeme string of its length bound over 17 lexemes'


# ------------------------------------------------------------------ C10

C10_CH_SRC = '''
import sys
sys.path.insert(0, %(repo)r)
import pyModelChecking.parser as PP
from lark import exceptions as LE


class _Stub(object):
    # stands for the Lark object: fails at an arbitrary offset p of the input (lark's contract: 0 <= pos_in_stream <= len)
    def __init__(self, p, token):
        self.p, self.token = p, token

    def parse(self, s):
        cls = LE.UnexpectedToken if self.token else LE.UnexpectedCharacters
        e = cls.__new__(cls)
        e.pos_in_stream = self.p
        raise e


def position_within_input(s: str, p: int, token: bool) -> bool:
    \"\"\"
    pre: len(s) <= LEN and 0 <= p <= len(s)
    post: __return__
    \"\"\"
    P = object.__new__(PP.Parser)
    P._parser = _Stub(p, token)
    try:
        P(s)
    except (PP.UnexpectedToken, PP.UnexpectedCharacters) as e:
        return (type(e) is (PP.UnexpectedToken if token else PP.UnexpectedCharacters)) and isinstance(e.pos, int) and 0 <= e.pos <= len(s) and e.string == s
    except Exception:
        return False
    return False


def error_is_printable(s: str, p: int) -> bool:
    \"\"\"
    pre: len(s) <= LEN and 0 <= p <= len(s)
    post: __return__
    \"\"\"
    e = PP.UnexpectedToken(s, p)
    return isinstance(str(e), str) and 0 <= e.pos <= len(s)
'''

def run_c10(rep, tier):
    rep.assumptions += ['token level: a string is a sequence of <= L lexemes (L=4 quick, 5 thorough) from: every operator symbol incl. ~ | & -->, true, false, ( ), identifiers p and A1, the escaped string "s"; single spaces between lexemes',
                        'character-level lexing (missing spaces, escapes inside "...", non-ASCII) and longer strings are outside the automaton query; witnesses are replayed under 6 whitespace layouts (blank, newline, tab, CRLF, leading newlines, trailing tab); the error-position arithmetic is decided separately on a symbolic character string (CrossHair, Lark stubbed by its contract 0 <= pos_in_stream <= len)',
                        'documented grammar read in its most liberal concrete form (any parenthesisation, no precedence) and every identifier-shaped lexeme, keywords included, may be a proposition name']
    rep.cov['trusted_base'] = SAT_TRUSTED
    rep.cov['explanation'] = ('the LALR table and the contextual lexer decisions are extracted from the live Parser() of each logic on every run; the run of the parser loop on a symbolic lexeme string is a step-indexed transition '
                              'system with explicit stack; the documented grammar is a CYK table over the same string; z3 proves accepts(w) -> documented(w) for every string of the bound and that every run ends without stack overflow; '
                              'accepted and rejected witness strings are replayed through the real parser (formula of exactly that logic / positioned ParserError)')
    L = 4 if tier == 'quick' else 5
    nw = 10 if tier == 'quick' else 40
    done = 0
    tasks = [(lg, l, (3 if tier == 'quick' else nw) if l == L else nw) for lg in ('PL', 'LTL', 'CTL', 'CTLS') for l in sorted({3, L})]
    for t, st, rec, secs in pmap(lalr.lalr_task, tasks, workers=8):
        key = '%s parser vs documented grammar, strings of <=%d lexemes' % (t[0], t[1])
        if st != 'ok':
            rep.inconclusive('%s: %s' % (key, rec))
            rep.obligation(key, 'error')
            continue
        v = plain_obligation(rep, key, rec, 'every lexeme string accepted by the real LALR automaton is a formula of the logic per the documented grammar')
        if rec['unwind'] != 'unsat':
            rep.inconclusive('%s: unwinding obligation is %s' % (key, rec['unwind']))
        if v == 'unsat':
            done += 1
        elif v == 'sat':
            s = rec['witness']
            out, det = rec['witness_native']
            body = ('import importlib\nM = importlib.import_module("pyModelChecking.%s")\ns = %r\ntry:\n    f = M.Parser()(s); print("parser returned", repr(f), type(f))\nexcept Exception as e:\n    print("parser raised", type(e).__name__, e)\n'
                    'print("the documented grammar of %s excludes this string")\nprint("VIOLATION of C10")\nsys.exit(1)\n' % (t[0], s, t[0]))
            if out in ('formula', 'other-exception', 'not-a-formula'):
                rep.violation('%s: %r is outside the documented grammar but the real parser answers %s %s' % (key, s, out, det), write_replay('C10', body))
            else:
                rep.inconclusive('%s: automaton accepts %r but the real parser rejects it (extraction imprecise)' % (key, s))
        wit = rec['witnesses']
        rep.cov['traces_validated_against_impl'] += wit['accepted'] + wit['rejected']
        if len(rep.cov['samples']) < 14:
            rep.cov['samples'].append(dict(witness_replays=wit['samples'][:4], logic=t[0]))
        for pr in wit['problems'][:5]:
            body = ('import importlib\nM = importlib.import_module("pyModelChecking.%s")\ns = %r\ntry:\n    f = M.Parser()(s); print("parser returned", repr(f), type(f).__module__)\nexcept Exception as e:\n    print("parser raised", type(e).__name__, e)\n'
                    'print("VIOLATION of C10: automaton %s, real parser: %s %s")\nsys.exit(1)\n' % (t[0], pr['text'], pr['automaton'], pr['real_parser'], str(pr['detail']).replace('"', "'")))
            rep.violation('%s: %r automaton %s but real parser %s %s' % (key, pr['text'], pr['automaton'], pr['real_parser'], pr['detail']), write_replay('C10', body))
    # the position arithmetic between Lark's error and the raised ParserError, on a symbolic input string (CrossHair)
    from . import chair
    LEN = 4 if tier == 'quick' else 6
    chair.run(rep, 'C10', 'ch_c10', C10_CH_SRC.replace('LEN', str(LEN)),
              {'position_within_input': 'for every string of <=%d characters (any characters) and every offset Lark may report, Parser.__call__ raises the matching ParserError class with 0 <= pos <= len(input) and the input unchanged' % LEN,
               'error_is_printable': 'ParserError(s, p) keeps its position inside s and prints'}, tier)
    rep.cov['bounds'].update(crosshair_string_length=LEN)
    # cross-feeding: valid strings of each logic given to the other parsers, natively (exploration)
    cross = cross_feed()
    rep.cov['traces_validated_against_impl'] += cross['n']
    rep.obligation('native cross-feeding of %d valid strings to all four parsers' % cross['n'], 'unsat' if not cross['problems'] else 'sat', 0, 0, dict(exploration='cross-feeding', n=cross['n'], problems=cross['problems'][:3]))
    for pr in cross['problems'][:5]:
        body = 'print(%r)\nprint("VIOLATION of C10: cross-feeding")\nsys.exit(1)\n' % (pr,)
        rep.violation('cross-feeding: %s' % (pr,), write_replay('C10', body))
    rep.cov['bounds'].update(L=L, witnesses_per_logic=2 * nw)
    rep.cov['programs'] = cross['n']
    rep.cov['states'] = max(done, 1)
    rep.cov['transitions'] = max(done, 1)
    rep.cov['states_meaning'] = '(logic, L) inclusion queries decided unsat; each covers every lexeme string of that length over 14-21 lexemes'


def cross_feed():
    """valid strings of each logic (and token-level mutations of them) through every parser: a formula of exactly that logic, or a positioned
    ParserError; what each string is per the documented grammar comes from the native doc-membership predicate on the parsed tree"""
    texts = ['p', 'true', 'not p', 'p and q', 'p or q or r', 'p --> q', 'A F G q', 'E (p U q)', 'A (p U q)', 'E F p', 'A G (p --> A F q)', 'E ((X p) and F q)', 'X p', 'p U q',
             'A (p R (X q))', 'E G F p', 'A X A X p', 'not (A G p)', '(p)', '((p))', 'A (F p or G q)', '~p | q & r', 'F G p', 'A', 'E', 'p q', '( p', 'p )', 'A F', 'U p', 'p U', 'not', '',
             '"a b" or p', 'p &', '--> p', 'A E p', 'E A F p', 'A F E G p', 'true U false']
    texts += [t.replace('p', q, 1) for q in lalr.QUOTED for t in ('p', 'not p', 'p or q', 'A G p', 'E (p U q)', 'p and', 'A p')]
    out = dict(n=0, problems=[])
    for lg in ('PL', 'CTL', 'LTL', 'CTLS'):
        for s in texts:
            out['n'] += 1
            res, det = lalr.native_parse(lg, s) if s != '' else ('error', ('', 0, True))
            if s == '':
                try:
                    importlib.import_module('pyModelChecking.' + lg).Parser()(s)
                    res = 'formula'
                    det = ['?']
                except Exception as e:
                    res, det = ('error', (type(e).__name__, 0, True)) if type(e).__name__ in ('UnexpectedToken', 'UnexpectedCharacters') else ('other-exception', type(e).__name__)
            if res == 'formula':
                if det != ['pyModelChecking.%s.language' % lg]:
                    out['problems'].append((lg, s, 'formula with nodes of %s' % det))
                else:
                    M = importlib.import_module('pyModelChecking.' + lg)
                    f = M.Parser()(s)
                    if treeaut.doc_member(lg, treeaut.plain(treeaut.shape(f))) is None:
                        out['problems'].append((lg, s, 'returned %s which is not a formula of %s as documented' % (f, lg)))
            elif res == 'error':
                if not det[2]:
                    out['problems'].append((lg, s, 'error position %s outside the input' % (det[1],)))
            else:
                out['problems'].append((lg, s, '%s %s' % (res, det)))
    return out


# ------------------------------------------------------------------ C11
def eqhash_task(logic, depth, cap, seed):
    """native exploration: == iff same tree, hashes, set/dict behaviour, symmetry, transitivity, clone"""
    import random
    rng_ = random.Random(seed)
    M = importlib.import_module('pyModelChecking.' + logic)
    fs = enum_formulas(logic, depth, ATOM_POOL[:5], rng_, cap)
    out = dict(logic=logic, formulas=len(fs), pairs=0, triples=0, problems=[])
    shapes = [treeaut.shape(f) for f in fs]
    sample = fs if len(fs) <= 260 else rng_.sample(fs, 260)
    idx = {id(f): i for i, f in enumerate(fs)}
    for a in sample:
        sa = shapes[idx[id(a)]]
        if not (a == a):
            out['problems'].append(('not reflexive', str(a)))
        c = a.clone()
        if not (c == a) or treeaut.shape(c) != sa or hash(c) != hash(a):
            out['problems'].append(('clone differs', str(a)))
        na, nc = list(treeaut._nodes(a)), list(treeaut._nodes(c))
        if any(x is y for x in na for y in nc if not isinstance(x, (bool, str))):
            out['problems'].append(('clone shares a node', str(a)))
        for b in sample:
            out['pairs'] += 1
            sb = shapes[idx[id(b)]]
            e1, e2 = (a == b), (b == a)
            if e1 != e2:
                out['problems'].append(('== not symmetric', '%s / %s' % (a, b)))
            if e1 != (sa == sb):
                out['problems'].append(('== is %s but trees %s' % (e1, 'equal' if sa == sb else 'differ'), '%s / %s' % (a, b)))
            if e1 and hash(a) != hash(b):
                out['problems'].append(('equal but different hashes', '%s / %s' % (a, b)))
            if (a != b) == e1:
                out['problems'].append(('!= inconsistent with ==', '%s / %s' % (a, b)))
    st = set(sample)
    if len(st) != len({shapes[idx[id(f)]] for f in sample}):
        out['problems'].append(('set size differs from number of distinct trees', '%d vs %d' % (len(st), len({shapes[idx[id(f)]] for f in sample}))))
    d = {}
    for f in sample:
        d[f] = shapes[idx[id(f)]]
    for f in sample:
        if d[f.clone()] != shapes[idx[id(f)]]:
            out['problems'].append(('dict lookup through a clone fails', str(f)))
    # hash, then edit a strict descendant in place through the public wrap_subformulas, then compare with a freshly built equal formula
    deep = [f for f in sample if not isinstance(f, (bool, str)) and any(len(getattr(s_, '_subformula', [])) > 0 for s_ in f.subformulas())][:60]
    for f in deep:
        g = f.clone()
        h0 = hash(g)
        inner = [s_ for s_ in g.subformulas() if len(getattr(s_, '_subformula', [])) > 0][0]
        old_ops = list(inner.subformulas())
        try:
            inner.wrap_subformulas([M.AtomicProposition('zq')] + old_ops[1:], type(old_ops[0]).__mro__[-2] if False else M.Formula)
        except TypeError:
            continue
        fresh = g.clone()
        out['pairs'] += 1
        if treeaut.shape(fresh) != treeaut.shape(g):
            out['problems'].append(('clone after an in-place edit differs', str(g)))
        if (g == fresh) and hash(g) != hash(fresh):
            out['problems'].append(('equal formulas with different hashes after an in-place edit of a subformula (stale hash)', '%s / %s' % (g, fresh)))
        if (g == fresh) and (fresh not in {g} or len({g, fresh}) != 1):
            out['problems'].append(('equal formulas are two keys of a set after an in-place edit', '%s / %s' % (g, fresh)))
    tri = [rng_.sample(sample, 3) for _ in range(3000)]
    for a, b, c in tri:
        out['triples'] += 1
        if a == b and b == c and not (a == c):
            out['problems'].append(('not transitive', '%s %s %s' % (a, b, c)))
    for v in (True, False):
        B = M.Bool(v)
        if not (B == v) or not (v == B) or (B == (not v)) or ((not v) == B) or hash(B) != hash(M.Bool(v)):
            out['problems'].append(('Bool(%s) == %s fails in one direction' % (v, v), str(B)))
    return out


CROSSHAIR_SRC = '''
import sys
sys.path.insert(0, %(repo)r)
from pyModelChecking import %(logic)s as M


def ok_name(s: str) -> bool:
    return len(s) > 0 and len(s) <= 3 and all(c in "pqA_1" for c in s) and not s[0] == "1" and s not in ("A",)


def eq_iff_same_name(a: str, b: str) -> bool:
    """
    pre: ok_name(a) and ok_name(b)
    post: __return__ == (a == b)
    """
    return M.AtomicProposition(a) == M.AtomicProposition(b)


def hash_consistent(a: str, b: str) -> bool:
    """
    pre: ok_name(a) and ok_name(b)
    post: __return__
    """
    x, y = M.Not(M.AtomicProposition(a)), M.Not(M.AtomicProposition(b))
    return (not (x == y)) or hash(x) == hash(y)


def or_argument_order_matters(a: str, b: str) -> bool:
    """
    pre: ok_name(a) and ok_name(b)
    post: __return__ == (a == b)
    """
    return M.Or(M.AtomicProposition(a), M.AtomicProposition(b)) == M.Or(M.AtomicProposition(b), M.AtomicProposition(a))
'''


def crosshair_check(rep, tier):
    """Formula.__eq__/__hash__ with symbolic atom names under CrossHair (its str theory is the right tool here)"""
    ch = os.path.join(ROOT, '.venv', 'bin', 'crosshair')
    if not os.path.exists(ch):
        rep.cov['crosshair'] = 'not installed in the venv: skipped'
        return
    d = tempfile.mkdtemp(prefix='verif_ch_')
    path = os.path.join(d, 'ch_c11.py')
    with open(path, 'w') as f:
        f.write(CROSSHAIR_SRC % dict(repo=REPO, logic='CTLS'))
    t0 = time.time()
    try:
        r = subprocess.run([ch, 'check', '--report_all', '--per_condition_timeout', '25' if tier == 'quick' else '120', path], capture_output=True, text=True, timeout=600)
        out = (r.stdout + r.stderr).strip().splitlines()
    except subprocess.TimeoutExpired:
        out = ['timeout']
    finally:
        import shutil
        shutil.rmtree(d, ignore_errors=True)
    conf = [l for l in out if 'Confirmed over all paths' in l]
    bad = [l for l in out if 'error' in l.lower() and 'Confirmed' not in l and 'Not confirmed' not in l and 'Unable' not in l]
    rep.cov['crosshair'] = dict(conditions=3, confirmed=len(conf), lines=[l[-160:] for l in out[:8]], secs=round(time.time() - t0, 1))
    for l in bad:
        if 'false when calling' in l or 'raises' in l.lower():
            body = 'print(%r)\nprint("VIOLATION of C11: CrossHair counterexample (see line above)")\nsys.exit(1)\n' % l
            rep.violation('CrossHair: %s' % l[-200:], write_replay('C11', body))
    rep.obligation('CrossHair: __eq__/__hash__ with symbolic atom names (3 conditions)', 'unsat' if not bad else 'sat', 0, 3,
                   dict(crosshair=rep.cov['crosshair']['lines'][:4], confirmed_over_all_paths=len(conf), note='not-confirmed conditions are reported, not counted as proofs'))


def run_c11(rep, tier):
    rep.assumptions += ['atom names are not reserved words; solver part shared with C09: two different trees never print identically (printed forms of <= L lexemes), which is what == / hash (defined through str) rely on',
                        'pairs/triples are explored natively over enumerated formulas (all of depth <=1, seeded sample of depth 2); CrossHair runs __eq__/__hash__ with symbolic atom names (len<=3)']
    rep.cov['trusted_base'] = SAT_TRUSTED + ['crosshair-tool 0.0.110']
    rep.cov['explanation'] = ('Formula.__eq__ and __hash__ are defined through str(): "f == g iff same tree" is exactly injectivity of printing, decided by z3 on the grammar of printed forms extracted from the real __str__ methods '
                              '(shared with C09); symmetry/transitivity/hash/set/dict/clone/Bool-vs-bool are explored natively over pairs and triples; CrossHair checks three conditions over symbolic atom names')
    L = 10 if tier == 'quick' else 12
    done = 0
    for t, st, rec, secs in pmap(printamb.amb_task, [(lg, L) for lg in ('PL', 'LTL', 'CTLS')]):
        key = 'printed forms of %s, <=%d lexemes: injectivity of str()' % t
        if st != 'ok':
            rep.inconclusive('%s: %s' % (key, rec))
            rep.obligation(key, 'error')
            continue
        v = plain_obligation(rep, key, rec, 'no two different formula trees have the same printed form (so == / hash through str() identify exactly equal trees)')
        if v == 'unsat':
            done += 1
        elif v == 'sat':
            pair = printamb.confirm_ambiguity(t[0], rec['witness'])
            if pair:
                body = ('print("two different trees with one printed form:", %r, %r)\nprint("VIOLATION of C11: == holds for different trees")\nsys.exit(1)\n' % (repr(pair[0]), repr(pair[1])))
                rep.violation('%s: %s' % (key, ' '.join(rec['witness'])), write_replay('C11', body))
            else:
                rep.inconclusive('%s: witness %s not confirmed natively' % (key, rec['witness']))
    nat = 0
    for t, st, out, secs in pmap(eqhash_task, [(lg, 2, 250 if tier == 'quick' else 1200, 3) for lg in ('PL', 'LTL', 'CTLS', 'CTL')]):
        key = 'native pairs/triples %s' % t[0]
        if st != 'ok':
            rep.inconclusive('%s: %s' % (key, out))
            continue
        nat += out['pairs'] + out['triples']
        rep.obligation(key, 'unsat' if not out['problems'] else 'sat', 0, 0, dict(exploration='==, hash, set/dict, clone, Bool over pairs and triples', logic=t[0], formulas=out['formulas'], pairs=out['pairs'],
                                                                                  triples=out['triples'], problems=out['problems'][:3]))
        for pr in out['problems'][:5]:
            body = 'print(%r)\nprint("VIOLATION of C11: %s")\nsys.exit(1)\n' % (pr, pr[0].replace('"', "'"))
            rep.violation('%s: %s: %s' % (key, pr[0], pr[1]), write_replay('C11', body))
    compositional_check(rep, 'C11')
    crosshair_check(rep, tier)
    rep.cov['bounds'].update(L=L, native_pairs_and_triples=nat)
    rep.cov['programs'] = nat
    rep.cov['traces_validated_against_impl'] += nat
    rep.cov['states'] = max(done, 1)
    rep.cov['transitions'] = max(done, 1)
    rep.cov['states_meaning'] = 'injectivity queries decided unsat; each covers every lexeme string of the length bound'
