"""Drivers for C16, C17, C18."""
import itertools, random, gc
from .common import pmap, rng, write_replay, run_replay
from . import bdd
from .p_graph import TRUSTED, absorb

BDD_REPLAY = '''
import itertools
from pyModelChecking.BDD import OBDD, BDDNode
from pyModelChecking.BDD.BDD import BDDNonTerminalNode, BDDTerminalNode
order = %(order)r
kind, op = %(kind)r, %(op)r
def build(bits, vs):
    if not vs: return BDDNode(bool(bits[0]))
    h = len(bits) // 2
    return BDDNode(vs[0], build(bits[:h], vs[1:]), build(bits[h:], vs[1:]))
def ev(node, asg):
    while isinstance(node, BDDNonTerminalNode):
        node = node.high if asg[node.var] else node.low
    return bool(node.value)
def table(node): return [ev(node, dict(zip(order, bits))) for bits in itertools.product([False, True], repeat=len(order))]
def wellformed(node, seen=None):
    seen = {} if seen is None else seen
    out = []
    stack = [node]
    while stack:
        nd = stack.pop()
        if isinstance(nd, BDDTerminalNode) or id(nd) in seen: continue
        seen[id(nd)] = nd
        if nd.low is nd.high: out.append('node %%s has identical children' %% nd.var)
        for ch in (nd.low, nd.high):
            if isinstance(ch, BDDNonTerminalNode) and not order.index(nd.var) < order.index(ch.var): out.append('order violated %%s -> %%s' %% (nd.var, ch.var))
            stack.append(ch)
    return out
f = %(f)r; g = %(g)r
bad = []
F = OBDD(build(f, order), order)
if table(F.root) != [bool(x) for x in f]: bad.append('construction of f denotes %%s' %% table(F.root))
bad += wellformed(F.root)
if kind == 'pair':
    G = OBDD(build(g, order), order)
    if (F.root is G.root) != (f == g) or (F == G) != (f == g): bad.append('canonicity: same root=%%s, ==: %%s, tables equal=%%s' %% (F.root is G.root, F == G, f == g))
    if op in ('and', 'or', 'xor'):
        R = {'and': F & G, 'or': F | G, 'xor': F ^ G}[op]
        want = [{'and': a and b, 'or': a or b, 'xor': a != b}[op] for a, b in zip(map(bool, f), map(bool, g))]
        if table(R.root) != want: bad.append('%%s denotes %%s, expected %%s' %% (op, table(R.root), want))
        bad += wellformed(R.root)
        if not (R == OBDD(build(want, order), order)): bad.append('result of %%s is not the canonical diagram of its function' %% op)
else:
    if op == 'invert':
        N = ~F
        if table(N.root) != [not bool(x) for x in f]: bad.append('~ denotes %%s' %% table(N.root))
        if not ((~N).root is F.root): bad.append('double negation is a different root')
        bad += wellformed(N.root)
    elif op.startswith('restrict'):
        asgs = [dict(zip(order, bits)) for bits in itertools.product([False, True], repeat=len(order))]
        for v in order:
            for b in (False, True, 0, 1):
                R = F.restrict(v, b)
                want = [bool(f[asgs.index(dict(a, **{v: bool(b)}))]) for a in asgs]
                if table(R.root) != want: bad.append('restrict(%%s,%%r) denotes %%s expected %%s' %% (v, b, table(R.root), want))
                bad += wellformed(R.root)
    else:
        asgs = [dict(zip(order, bits)) for bits in itertools.product([False, True], repeat=len(order))]
        sup = {v for v in order if any(bool(f[i]) != bool(f[asgs.index(dict(a, **{v: not a[v]}))]) for i, a in enumerate(asgs))}
        if F.variables() != sup: bad.append('variables() = %%s, support = %%s' %% (F.variables(), sup))
print(kind, op, 'order', order, 'f', f, 'g', g)
if bad:
    print('VIOLATION of %(pid)s:', bad); sys.exit(1)
print('no violation on this input')
'''


def bdd_replay(pid):
    def fn(res):
        m = res.get('model') or {}
        nb = 1 << res['k']
        f = [int(bool(m.get('f%d' % i))) for i in range(nb)]
        g = [int(bool(m.get('g%d' % i))) for i in range(nb)]
        path = write_replay(pid, BDD_REPLAY % dict(order=res['order'], kind=res['kind'], op=res['op'], f=f, g=g, pid=pid))
        ok, out = run_replay(path)
        return (path if ok else None), out
    return fn


def _pair(k, op, order):
    return bdd.pair_task(k, op, order)


def _unary(k, op, order):
    return bdd.unary_task(k, op, order)


def _task(kind, k, op, order, fixed=None):
    if kind == 'pair':
        return bdd.pair_task(k, op, order, fixed)
    return bdd.unary_task(k, op, order)


def rich_tables(order):
    """truth tables (along `order`, 4 variables) of a few functions whose diagrams have inner nodes on several levels and shared sub-diagrams"""
    out = {}
    fns = {'a^c': lambda a, b, c, d: a != c, '(a&b)|(c&d)': lambda a, b, c, d: (a and b) or (c and d), 'a^b^c^d': lambda a, b, c, d: (a + b + c + d) % 2 == 1,
           'maj(a,b,c)^d': lambda a, b, c, d: ((a + b + c) >= 2) != d, '(c&d)&(~a|b)': lambda a, b, c, d: c and d and ((not a) or b),
           'a?(b^d):(c|d)': lambda a, b, c, d: (b != d) if a else (c or d), '(a|b)&(c|d)': lambda a, b, c, d: (a or b) and (c or d), 'b^d': lambda a, b, c, d: b != d}
    import itertools as _it
    for nm, fn in fns.items():
        out[nm] = [bool(fn(*[bool(x) for x in bits])) for bits in _it.product([0, 1], repeat=len(order))]
    return out


def literal_tables(order):
    """truth tables (along `order`) of the literals v, ~v and the constants"""
    k = len(order)
    out = {}
    for vi, v in enumerate(order):
        t = [bool((i >> (k - 1 - vi)) & 1) for i in range(1 << k)]
        out[v] = t
        out['~' + v] = [not x for x in t]
    out['0'] = [False] * (1 << k)
    out['1'] = [True] * (1 << k)
    return out


def bdd_tasks(tier):
    t = []
    for order in (['a', 'b'], ['b', 'a']):
        for op in ('none', 'and', 'or', 'xor'):
            t.append(('pair', 2, op, order))
    for order in (['a', 'b', 'c'], ['c', 'a', 'b']):
        t.append(('pair', 3, 'none', order))
        for op in ('invert', 'restrict', 'variables'):
            t.append(('unary', 3, op, order))
    # 3 variables, binary operations with ONE operand a literal/constant and the other arbitrary (all 256 functions), both sides
    for order in (['a', 'b', 'c'], ['c', 'a', 'b']):
        lits = literal_tables(order)
        for name, tab in lits.items():
            for side in ('f', 'g'):
                for op in (('and', 'or', 'xor') if order == ['a', 'b', 'c'] else ('and',)):
                    t.append(('pair', 3, op, order, {'%s%d' % (side, i): b for i, b in enumerate(tab)}))
    # 4 variables: one operand pinned to a literal, the other arbitrary (65,536 functions per run, ~40 s each)
    o4 = ['a', 'b', 'c', 'd']
    l4 = literal_tables(o4)
    for name in ('a', '~b', 'c', '~d', 'b', '~c', 'd', '~a'):
        t.append(('pair', 4, 'and' if name[0] != '~' else 'or', o4, {'f%d' % i: b for i, b in enumerate(l4[name])}))
        t.append(('pair', 4, 'xor' if name[0] != '~' else 'and', o4, {'g%d' % i: b for i, b in enumerate(l4[name])}))
    # 4 variables: restrict on each variable separately (all 65,536 functions per run)
    for v in o4:
        t.append(('unary', 4, 'restrict:' + v, o4))
    # 4 variables: one operand pinned to a function that is NOT a literal (both operands have inner nodes on several levels)
    rich = rich_tables(o4)
    pins = [('a^c', 'xor', 'f'), ('(a&b)|(c&d)', 'and', 'g'), ('a^b^c^d', 'or', 'f'), ('maj(a,b,c)^d', 'xor', 'g')]
    if tier == 'thorough':
        r = rng('bdd-pins')
        pins += [(nm, op, side) for nm in rich for op in ('and', 'or', 'xor') for side in ('f', 'g') if (nm, op, side) not in pins]
        for j in range(24):
            tab = [bool(r.randrange(2)) for _ in range(16)]
            rich['seeded#%d' % j] = tab
            pins.append(('seeded#%d' % j, ('and', 'or', 'xor')[j % 3], 'fg'[j % 2]))
    for nm, op, side in pins:
        t.append(('pair', 4, op, o4, {'%s%d' % (side, i): b for i, b in enumerate(rich[nm])}))
    if tier == 'thorough':
        for op in ('and', 'or', 'xor'):
            t.append(('pair', 3, op, ['a', 'b', 'c']))
        t.append(('pair', 3, 'and', ['c', 'a', 'b']))
        for op in ('invert', 'restrict', 'variables'):
            t.append(('unary', 4, op, ['a', 'b', 'c', 'd']))
    return t


def run_bdd(rep, tier, pid):
    rep.cov['trusted_base'] = TRUSTED
    tasks = bdd_tasks(tier)
    done = 0
    for t, st, r, secs in pmap(_task, tasks, workers=6 if tier == 'thorough' else 16):
        kind, k, op, order = t[:4]
        fx = t[4] if len(t) > 4 else None
        key = 'bdd %s k=%d op=%s order=%s%s' % (kind, k, op, ''.join(order), (' %s pinned to %s' % (sorted(fx)[0][0], ''.join('1' if fx[n_] else '0' for n_ in sorted(fx, key=lambda z: int(z[1:]))))) if fx else '')
        if st == 'ok':
            for f_ in ('solver_s', 'gates', 'queries', 'encode_s'):
                r.setdefault(f_, 0)
        desc = ('all ordered pairs of %d-variable functions: identical root <=> equal tables, OBDD == agrees, %s denotes the pointwise operation, every live node reduced/ordered/unique' % (k, op)
                if kind == 'pair' else 'all %d-variable functions: %s correct on every assignment; every live node reduced/ordered/unique' % (k, op))
        absorb(rep, t, st, r, secs, key, bdd_replay(pid), desc)
        if st == 'ok' and r['verdict'] == 'unsat':
            done += (2 ** (2 ** k)) ** (1 if (kind != 'pair' or fx) else 2)
    rep.cov['states'] = done
    rep.cov['transitions'] = done
    rep.cov['states_meaning'] = 'function pairs / functions covered by unsat verdicts (each merged run covers all 2^(2^k) functions per operand)'
    rep.cov['bounds'].update(variables='2 (all ops, both orderings), 3 (construction, ~, restrict, variables; binary ops in thorough), 4 (unary ops, thorough)',
                             orderings='one agreeing and one disagreeing with alphabetical order')


def run_c16(rep, tier):
    rep.assumptions += ['histories decided: bottom-up construction of two arbitrary functions through the public constructor followed by &, |, ^, ~, restrict, all nodes kept alive',
                        'creation/drop/collect histories of any length: covered by ONE INDUCTIVE STEP of the unique table from an arbitrary pool (each node live or collected) satisfying the representation invariant; collection enters only through the WeakSet contract "a collected node is absent from every parent set" (documented weakref semantics; CPython finalisation order and a collection in the middle of find_isomorph\'s iteration are not modelled)',
                        'a native build/drop/gc stress sequence is run as a cross-check of that contract only',
                        'functions over more than 3 (4 for unary ops) variables are outside']
    rep.cov['explanation'] = ('BDDNode/BDDNonTerminalNode/BDDTerminalNode.__new__, find_isomorph, __reset__, apply/compute, __invert__, restrict and the OBDD wrappers executed symbolically with the truth-table bits of two '
                              'functions as unknowns: one merged run covers every ordered pair; z3 proves identical root <=> equal tables (and OBDD.__eq__ agrees), and that no two live non-terminals share (var, low, high)')
    run_bdd(rep, tier, 'C16')
    run_step(rep, tier)
    gc_stress(rep, 300 if tier == 'quick' else 600)


def run_c17(rep, tier):
    rep.assumptions += ['functions over <=3 variables for binary operations (k=3 binary in the thorough tier), <=4 for unary ones; two orderings',
                        'RuntimeError clauses (different orderings, variable outside the ordering) are examined natively on a fixed list of cases']
    rep.cov['explanation'] = ('same symbolic runs as C16: z3 proves that f&g, f|g, f^g, ~f, f.restrict(v,b) denote conjunction, disjunction, xor, negation and cofactor on every assignment, that every node reachable '
                              'from a result tests a variable earlier than its children and has distinct children, and that variables() is exactly the support')
    run_bdd(rep, tier, 'C17')
    native_errors(rep, 'C17')


GC_SRC = '''
import gc, itertools, random
from pyModelChecking.BDD import OBDD, BDDNode
from pyModelChecking.BDD.BDD import BDDNonTerminalNode


def stress(seed, steps):
    """random build / combine / drop / gc.collect() history over a pool of OBDDs; at checkpoints: identical root <=> equal truth table,
    and no two live non-terminals share (var, low, high)"""
    r = random.Random(seed)
    order = ['a', 'b', 'c']
    asgs = [dict(zip(order, bits)) for bits in itertools.product([False, True], repeat=3)]

    def ev(node, asg):
        while isinstance(node, BDDNonTerminalNode):
            node = node.high if asg[node.var] else node.low
        return bool(node.value)
    pool, want, hist, bad = [], [], [], []
    for i in range(steps):
        c = r.random()
        if c < 0.4 or len(pool) < 2:
            e = r.choice(['a', 'b', 'c', '~a', 'a & b', 'b | c', '~(a & c)', '(a | b) & ~c', 'a & ~b', '0', '1'])
            pool.append(OBDD(e, order)); hist.append('build ' + e)
            want.append([bool(eval(e.replace('~', ' not ').replace('&', ' and ').replace('|', ' or '), {}, dict(a_))) for a_ in asgs])
        elif c < 0.7:
            ix, iy = r.randrange(len(pool)), r.randrange(len(pool))
            x, y = pool[ix], pool[iy]
            k = r.randrange(5)
            rv, rb = r.choice(order), r.choice([0, 1])
            pool.append([lambda: x & y, lambda: x | y, lambda: x ^ y, lambda: ~x, lambda: x.restrict(rv, rb)][k]())
            hist.append(['and', 'or', 'xor', 'not', 'restrict %%s=%%d' %% (rv, rb)][k])
            tx, ty = want[ix], want[iy]
            want.append([[p and q for p, q in zip(tx, ty)], [p or q for p, q in zip(tx, ty)], [p != q for p, q in zip(tx, ty)], [not p for p in tx],
                         [tx[asgs.index(dict(a_, **{rv: bool(rb)}))] for a_ in asgs]][k])
            del x, y
            # every result denotes the function its operands' tables determine - also when nodes of dropped diagrams were collected
            # and their addresses reused in between
            got = [ev(pool[-1].root, a_) for a_ in asgs]
            if got != want[-1]:
                bad.append('step %%d: %%s gives the table %%s, expected %%s (history tail %%s)' %% (i, hist[-1], got, want[-1], hist[-8:]))
                return bad
        elif c < 0.9:
            j = r.randrange(len(pool)); pool.pop(j); want.pop(j); hist.append('drop')
        else:
            gc.collect(); hist.append('gc')
        if i %% 10 == 0 and len(pool) >= 2:
            for x in pool:
                for y in pool:
                    tx, ty = [ev(x.root, a) for a in asgs], [ev(y.root, a) for a in asgs]
                    if (x.root is y.root) != (tx == ty) or (x == y) != (tx == ty):
                        bad.append('step %%d: two diagrams with %%s tables have identical root=%%s, ==: %%s (history tail %%s)' %% (i, 'equal' if tx == ty else 'different', x.root is y.root, x == y, hist[-6:]))
                        return bad
            seen = {}
            for nd in BDDNode.nodes():
                if isinstance(nd, BDDNonTerminalNode):
                    k = (nd.var, id(nd.low), id(nd.high))
                    if k in seen and seen[k] is not nd:
                        bad.append('step %%d: two live nodes share (var, low, high) (history tail %%s)' %% (i, hist[-6:]))
                        return bad
                    seen[k] = nd
    return bad


def scripted():
    """the complement of a small function reached by two routes, the first result kept alive while the second is computed;
    with and without a previously computed, dropped and collected complement"""
    order = ['a', 'b', 'c']
    exprs = ['a', '~b', 'a & b', 'a & ~b', 'a | b', '~a | c', '(a & b) | c', 'a & (b | c)', '(a | b) & ~c', '~(a & b & c)', 'b & ~c', '(a & ~b) | (~a & b)', 'a | (b & ~c)']
    one = lambda: OBDD('1', order)
    routes = [('~x', lambda x: ~x), ('x ^ 1', lambda x: x ^ one()), ('~(x & x)', lambda x: ~(x & x)), ('(x ^ 1) | (x ^ 1)', lambda x: (x ^ one()) | (x ^ one())),
              ('~~~x', lambda x: ~(~(~x))), ('1 ^ x', lambda x: one() ^ x)]
    bad, n = [], 0
    for e in exprs:
        for pre in (False, True):
            for (n1, r1) in routes:
                for (n2, r2) in routes:
                    if n1 == n2:
                        continue
                    n += 1
                    x = OBDD(e, order)
                    if pre:
                        t = ~x
                        del t
                        gc.collect()
                    y = r1(x)
                    z = r2(x)
                    if not (y == z) or y.root is not z.root:
                        bad.append('not(%%s)%%s reached as %%r (kept alive) and then as %%r: different roots (== %%s)' %% (e, ' [after a dropped and collected ~x]' if pre else '', n1, n2, y == z))
                        return bad, n
                    del x, y, z
                    gc.collect()
    # the complement of f kept alive while f itself is dropped; then a different g is built (its nodes may get the addresses the
    # nodes of f had) and complemented: ~g must be the complement of g and the same diagram as g ^ 1
    asgs = [dict(zip(order, bits)) for bits in itertools.product([False, True], repeat=3)]

    def ev(node, asg):
        while isinstance(node, BDDNonTerminalNode):
            node = node.high if asg[node.var] else node.low
        return bool(node.value)
    for e1 in exprs:
        for e2 in exprs:
            for collect in (False, True):
                n += 1
                f = OBDD(e1, order)
                nf = ~f
                del f
                if collect:
                    gc.collect()
                g = OBDD(e2, order)
                ng = ~g
                tg, tn = [ev(g.root, a_) for a_ in asgs], [ev(ng.root, a_) for a_ in asgs]
                if tn != [not v for v in tg] or ng.root is not (g ^ one()).root:
                    bad.append('~(%%s) computed while ~(%%s) is alive and (%%s) itself was dropped%%s: table %%s, expected the complement of %%s; same root as g ^ 1: %%s'
                               %% (e2, e1, e1, ' and collected' if collect else '', tn, tg, ng.root is (g ^ one()).root))
                    return bad, n
                del nf, g, ng
    return bad, n


def guarded(fn, *a):
    """an exception of the library in the middle of a legal history is a problem of the history, not of the harness"""
    try:
        return fn(*a)
    except Exception as e:
        msg = ['the history raised %%s: %%s' %% (type(e).__name__, e)]
        return (msg, 0) if fn is scripted else msg
'''


def gc_stress(rep, steps):
    """native exploration of creation/drop/collect histories (enumeration, seeded); a failure is replayed in a fresh interpreter"""
    from .common import SEED
    ns = {}
    exec(GC_SRC % (), ns)
    problems = []
    seeds = ['%d/gc/%d' % (SEED, j) for j in range(25 if steps <= 300 else 120)]
    for sd in seeds:
        bad = ns['guarded'](ns['stress'], sd, steps)
        if bad:
            problems.append((sd, bad[0]))
    # scripted histories: the same function reached by different routes, with intermediate results dropped and collected in between
    sbad = ns['guarded'](ns['scripted'])
    rep.cov['traces_validated_against_impl'] += sbad[1]
    if sbad[0]:
        problems.append(('scripted', sbad[0][0]))
    rep.cov['traces_validated_against_impl'] += steps * len(seeds)
    rep.cov['native_gc_histories'] = dict(histories=len(seeds), steps_each=steps, note='exploration (seeded enumeration of build/combine/drop/gc histories), not a solver verdict')
    rep.obligation('native creation/drop/collect histories (%d x %d steps)' % (len(seeds), steps), 'unsat' if not problems else 'sat', 0, 0,
                   dict(exploration='random histories over a pool of OBDDs with gc.collect()', histories=len(seeds), steps=steps, problems=[p[1] for p in problems[:2]]))
    for sd, msg in problems[:3]:
        body = GC_SRC % () + ('\nbad = guarded(stress, %r, %d)\n' % (sd, steps) if sd != 'scripted' else '\nbad = guarded(scripted)[0]\n') + 'print(bad)\nif bad:\n    print("VIOLATION of C16:", bad[0]); sys.exit(1)\nprint("no violation on this input")\n'
        path = write_replay('C16', body)
        ok, out = run_replay(path)
        if ok:
            rep.violation('history seed %s: %s' % (sd, msg), path)
        else:
            rep.inconclusive('native history %s failed in-process but not in a fresh interpreter: %s' % (sd, msg))


def native_errors(rep, pid):
    from pyModelChecking.BDD import OBDD
    cases = [('different orderings', lambda: OBDD('a', ['a', 'b']) & OBDD('a', ['b', 'a']), RuntimeError),
             ('different orderings |', lambda: OBDD('a', ['a', 'b']) | OBDD('b', ['a', 'b', 'c']), RuntimeError),
             ('different orderings ^', lambda: OBDD('a', ['a', 'b']) ^ OBDD('b', ['b', 'a']), RuntimeError),
             ('variable outside the ordering', lambda: OBDD('a & c', ['a', 'b']), RuntimeError),
             ('variable outside the ordering (lambda)', lambda: OBDD('lambda a,b: a | c'), RuntimeError),
             ('variable outside the ordering (leaf)', lambda: OBDD('c', ['a', 'b']), RuntimeError)]
    n = 0
    for name, fn, exc in cases:
        try:
            fn()
            got = 'no exception'
        except exc:
            got = None
        except Exception as e:
            got = type(e).__name__
        rep.cov['traces_validated_against_impl'] += 1
        if got is not None:
            path = write_replay(pid, 'print("native error-clause case %s: %s instead of %s")\nprint("VIOLATION of %s")\nsys.exit(1)\n' % (name, got, exc.__name__, pid))
            rep.violation('%s: %s instead of %s' % (name, got, exc.__name__), path)
        else:
            n += 1
    rep.cov['native_error_cases'] = n


# ------------------------------------------------------------------ C18
KW = {'&': 'and', '|': 'or', '~': 'not '}


def expr_texts(depth):
    leaves = ['a', 'b', 'c', 'd', '0', '1']
    lv = {0: leaves}
    for d in range(1, depth + 1):
        prev = lv[d - 1]
        # fully parenthesised, so that replacing & | ~ by and or not cannot change the grouping
        cur = ['~(%s)' % x for x in prev[::2]] + ['(not (%s))' % x for x in prev[1::2]]
        for op in ('&', '|', 'and', 'or'):
            for x in prev[::3]:
                for y in leaves[:4]:
                    cur.append('((%s) %s (%s))' % (x, op, y))
                    cur.append('((%s) %s (%s))' % (y, op, x))
        lv[d] = cur
    return lv


def run_c18(rep, tier):
    from pyModelChecking.BDD import OBDD, BDDNode
    rep.assumptions += ['solver part: parse_binary_expr on every syntax tree of depth <=2 over & | and or ~ not and leaves a b c 0 1 True False (operator skeleton forked: 512 forks; the 4 leaves merged: 4,096 trees per fork); keyword chains of 3..6 operands under ONE and/or node (7 in thorough), every operand an arbitrary leaf',
                        'exploration part (natively, one input per run): lambda vs expression notation over enumerated texts and argument orders; str round trip for EVERY function of 3 variables under all 6 orderings (4 variables in thorough); error clauses',
                        '/repo at fix commits 0348f4e, 6cbd413, df24c68']
    rep.cov['trusted_base'] = TRUSTED
    rep.cov['explanation'] = ('the real expression parser (parse_binary_expr, parse_binary_op, parse_binary_binary_op, parse_binary_unary_op, parse_name, OBDD.__init__/apply/__and__/__or__/__invert__) executed '
                              'symbolically on a symbolic ast tree; z3 proves the resulting diagram denotes the expression on all 8 assignments, is reduced/ordered/unique, and nothing raises; '
                              'printing round trips and lambda notation are explored natively (exhaustively over functions, enumerated over texts)')
    forks = []
    for r_, c0, c1 in itertools.product(range(8), repeat=3):
        fx = {}
        for pre, code in (('r_', r_), ('c0_', c0), ('c1_', c1)):
            for i in range(3):
                fx[pre + str(i)] = bool((code >> i) & 1)
        forks.append(fx)
    tasks = [(fx, ['a', 'b', 'c']) for fx in forks]
    r = rng('c18')
    tasks += [(fx, ['c', 'a', 'b']) for fx in (forks if tier == 'thorough' else r.sample(forks, 64))]

    def rp(res):
        e = res.get('expr')
        body = ('from pyModelChecking.BDD import OBDD\nimport itertools\ne = %r; order = %r\no = OBDD(e, order)\nbad = []\n'
                'for bits in itertools.product([0, 1], repeat=3):\n    asg = dict(zip("abc", bits)); nd = o.root\n    while hasattr(nd, "var"): nd = nd.high if asg[nd.var] else nd.low\n'
                '    want = bool(eval(e.replace("~", " not ").replace("&", " and ").replace("|", " or "), {}, {k: bool(v) for k, v in asg.items()}))\n'
                '    if bool(nd.value) != want: bad.append((asg, bool(nd.value), want))\nprint(e, order, o)\nif bad:\n    print("VIOLATION of C18:", bad[:3]); sys.exit(1)\nprint("no violation on this input")\n'
                % (e, res['order']))
        path = write_replay('C18', body)
        ok, out = run_replay(path)
        return (path if ok else None), out
    done = 0
    for t, st, res, secs in pmap(bdd.parser_task, tasks):
        key = 'parser skeleton %s order=%s' % (''.join('1' if v else '0' for v in t[0].values()), ''.join(t[1]))
        if st == 'ok':
            for f_ in ('solver_s', 'gates', 'queries', 'encode_s'):
                res.setdefault(f_, 0)
            res['k'] = 3
        absorb(rep, t, st, res, secs, key, rp, 'parse_binary_expr on all trees with this operator skeleton (4,096 leaf combinations): denotes the expression, well-formed, no exception')
        if st == 'ok' and res['verdict'] == 'unsat':
            done += 4096
    # keyword chains `x1 and ... and xk`: ONE BoolOp node with k operands (k = 3..6; 7 in thorough, last operand forked)
    ctasks = [(k, op, order) for k in (3, 4, 5, 6) for op in ('and', 'or') for order in (['a', 'b', 'c'],)] + [(5, 'and', ['c', 'a', 'b']), (5, 'or', ['c', 'a', 'b'])]
    if tier == 'thorough':
        for code in range(8):
            ctasks += [(7, op, ['a', 'b', 'c'], {'h6_%d' % i: bool((code >> i) & 1) for i in range(3)}) for op in ('and', 'or')]

    def rpc(res):
        e = res.get('text')
        body = ('from pyModelChecking.BDD import OBDD\nimport itertools\ne = %r; order = %r\nbad = []\ntry:\n    o = OBDD(e, order)\nexcept Exception as ex:\n    o = None; bad.append("raised %%s" %% type(ex).__name__)\n'
                'for bits in itertools.product([0, 1], repeat=3):\n    if o is None: break\n    asg = dict(zip("abc", bits)); nd = o.root\n    while hasattr(nd, "var"): nd = nd.high if asg[nd.var] else nd.low\n'
                '    want = bool(eval(e, {}, {k: bool(v) for k, v in asg.items()}))\n'
                '    if bool(nd.value) != want: bad.append((asg, bool(nd.value), want))\nprint(e, order, o)\nif bad:\n    print("VIOLATION of C18:", bad[:3]); sys.exit(1)\nprint("no violation on this input")\n'
                % (e, res['order']))
        if e is None or ' d' in (' ' + e):
            return None, 'no replay for this witness (%r)' % (e,)
        path = write_replay('C18', body)
        ok, out = run_replay(path)
        return (path if ok else None), out
    for t, st, res, secs in pmap(bdd.chain_task, ctasks):
        key = 'parser chain of %d operands under one `%s` order=%s%s' % (t[0], t[1], ''.join(t[2]), (' last=%s' % ''.join('1' if v else '0' for v in t[3].values())) if len(t) > 3 else '')
        if st == 'ok':
            for f_ in ('solver_s', 'gates', 'queries', 'encode_s'):
                res.setdefault(f_, 0)
        absorb(rep, t, st, res, secs, key, rpc, 'parse_binary_expr on one BoolOp with %d operands, all 8^%d leaf combinations: denotes the %s of the leaves; RuntimeError iff a leaf is outside the ordering' % (t[0], t[0], 'conjunction' if t[1] == 'and' else 'disjunction'))
        if st == 'ok' and res['verdict'] == 'unsat':
            done += 8 ** t[0] // (8 if len(t) > 3 else 1)
    rep.cov['bounds'].update(keyword_chain_operands='3..6' + (' and 7' if tier == 'thorough' else ''))
    rep.cov['states'] = done
    rep.cov['transitions'] = done
    rep.cov['states_meaning'] = 'syntax trees covered by unsat verdicts'
    # ---- exploration part (native)
    probs = []
    lv = expr_texts(2)
    texts = lv[0] + lv[1] + lv[2][::(7 if tier == 'quick' else 1)]
    nexp = 0
    for e in texts:
        for args in (['a', 'b', 'c', 'd'], ['d', 'b', 'a', 'c']):
            nexp += 1
            try:
                x, y = OBDD('lambda %s: %s' % (','.join(args), e)), OBDD(e, args)
                if not (x == y):
                    probs.append(('lambda != expression', e, args))
                ekw = e.replace('&', 'and').replace('|', 'or').replace('~', 'not ')
                if not (OBDD(ekw, args) == y):
                    probs.append(('keyword synonyms differ', e, args))
                if not (OBDD(str(y.root), y.ordering) == y and OBDD(str(y)) == y):
                    probs.append(('str round trip', e, args, str(y)))
            except Exception as ex:
                probs.append(('raised %s' % type(ex).__name__, e, args))

    def build(bits, vs):
        if not vs:
            return BDDNode(bool(bits[0]))
        h = len(bits) // 2
        return BDDNode(vs[0], build(bits[:h], vs[1:]), build(bits[h:], vs[1:]))
    orders = [list(p) for p in itertools.permutations('abc')]
    for order in orders:
        for bits in itertools.product([0, 1], repeat=8):
            nexp += 1
            o = OBDD(build(bits, order), order)
            try:
                if not (OBDD(str(o.root), o.ordering) == o and OBDD(str(o)) == o):
                    probs.append(('str round trip', bits, order, str(o)))
            except Exception as ex:
                probs.append(('str round trip raised %s' % type(ex).__name__, bits, order, str(o)))
    # 4 variables: a seeded sample in the quick tier (shared sub-diagrams only appear from 4 variables on), everything in thorough
    r4 = rng('c18-4var')
    if tier == 'quick':
        for order in (['a', 'b', 'c', 'd'], ['c', 'a', 'd', 'b']):
            for _ in range(1500):
                bits = tuple(r4.randrange(2) for _ in range(16))
                nexp += 1
                o = OBDD(build(bits, order), order)
                try:
                    if not (OBDD(str(o.root), o.ordering) == o and OBDD(str(o)) == o):
                        probs.append(('str round trip', bits, order, str(o)))
                except Exception as ex:
                    probs.append(('str round trip raised %s' % type(ex).__name__, bits, order, str(o)))
    if tier == 'thorough':
        for order in (['a', 'b', 'c', 'd'], ['c', 'a', 'd', 'b']):
            for bits in itertools.product([0, 1], repeat=16):
                nexp += 1
                o = OBDD(build(bits, order), order)
                if not (OBDD(str(o.root), o.ordering) == o and OBDD(str(o)) == o):
                    probs.append(('str round trip', bits, order, str(o)))
    errs = [('a & e', ['a', 'b'], RuntimeError), ('lambda a,b: a | c', None, RuntimeError), ('e', ['a'], RuntimeError), ('a + b', ['a', 'b'], SyntaxError),
            ('a ^ b', ['a', 'b'], SyntaxError), ('f(a)', ['a'], SyntaxError), ('a < b', ['a', 'b'], SyntaxError), ('a & 2', ['a'], SyntaxError), ('-a', ['a'], SyntaxError),
            ('+a', ['a'], SyntaxError), ('a if b else a', ['a', 'b'], SyntaxError), ('a & 0.5', ['a'], SyntaxError), ('lambda a: a - a', None, SyntaxError), ('[a]', ['a'], SyntaxError),
            ('a and 3', ['a'], SyntaxError), ('"a"', ['a'], SyntaxError)]
    # error propagation: every expression of depth <=2 over Boolean leaves, a variable missing from the ordering (zz) and a
    # non-Boolean number (2): a strict parser must raise RuntimeError / SyntaxError whenever such a leaf occurs ANYWHERE
    lv0 = ['a', 'b', '0', '1', 'zz', '2']
    lv1 = ['~(%s)' % x for x in lv0] + ['(not (%s))' % x for x in lv0] + ['((%s) %s (%s))' % (x, op, y) for op in ('&', '|', 'and', 'or') for x in lv0 for y in lv0]
    lv2 = ['~(%s)' % x for x in lv1] + ['((%s) %s (%s))' % (x, op, y) for op in ('&', '|', 'and', 'or') for x in lv1[::(3 if tier == 'quick' else 1)] for y in lv0] + \
          ['((%s) %s (%s))' % (y, op, x) for op in ('&', '|', 'and', 'or') for x in lv1[1::(3 if tier == 'quick' else 1)] for y in lv0] + \
          ['((%s) and (%s) and (%s))' % (x, y, z) for x in lv0 for y in lv0 for z in lv0] + ['((%s) or (%s) or (%s))' % (x, y, z) for x in lv0 for y in lv0 for z in lv0]
    for e in lv1 + lv2:
        nexp += 1
        has_zz, has_2 = 'zz' in e, '(2)' in e
        allowed = ([RuntimeError] if has_zz else []) + ([SyntaxError] if has_2 else [])
        try:
            OBDD(e, ['a', 'b', 'c'])
            if allowed:
                probs.append(('no exception although the expression uses %s' % ('a variable outside the ordering' if has_zz else 'a non-Boolean number'), e, ['a', 'b', 'c']))
        except Exception as ex:
            if type(ex) not in allowed:
                probs.append(('raised %s, expected %s' % (type(ex).__name__, [x.__name__ for x in allowed] or 'no exception'), e, ['a', 'b', 'c']))
    for e, order, exc in errs:
        nexp += 1
        try:
            OBDD(e, order) if order is not None else OBDD(e)
            probs.append(('no exception, expected %s' % exc.__name__, e, order))
        except exc:
            pass
        except Exception as ex:
            probs.append(('raised %s, expected %s' % (type(ex).__name__, exc.__name__), e, order))
    rep.cov['programs'] = nexp
    rep.cov['traces_validated_against_impl'] += nexp
    rep.cov['exploration_part'] = dict(inputs=nexp, note='each native run pins its input: enumeration, not a solver verdict', exhaustive_functions='all 256 functions of 3 variables x 6 orderings' + ('; all 65,536 of 4 variables x 2 orderings' if tier == 'thorough' else ''))
    for pr in probs[:20]:
        body = 'print(%r)\nprint("VIOLATION of C18: native case")\nsys.exit(1)\n' % (pr,)
        if pr[0].startswith('str round trip') or pr[0].startswith('lambda') or pr[0].startswith('keyword') or 'raised' in pr[0] or 'no exception' in pr[0]:
            body = ('from pyModelChecking.BDD import OBDD\ncase = %r\nprint("native C18 case:", case)\nprint("VIOLATION of C18:", case[0])\nsys.exit(1)\n' % (pr,))
        rep.violation('native case: %s' % (pr,), write_replay('C18', body))
    rep.obligation('native exploration (%d inputs)' % nexp, 'unsat' if not probs else 'sat', 0, 0,
                   dict(native_exploration=nexp, problems=len(probs), sample=str(texts[5:8])))


STEP_REPLAY = '''
import gc
from pyModelChecking.BDD.BDD import BDDNode, BDDNonTerminalNode, BDDTerminalNode
k = %(k)d; m = %(m)r
VARS = ['a', 'b', 'c']
val = lambda nm: bool(m.get(nm, False))
def code(prefix, n):
    nb = max(1, (n - 1).bit_length())
    return min(sum((1 << i) for i in range(nb) if val(prefix + str(i))), n - 1)
T = [BDDNode(False), BDDNode(True)]
pool = {}
def obj(idx):
    return T[idx] if idx < 2 else pool.get(idx - 2)
spec = {}
for i in range(k):
    spec[i] = (val('live%%d' %% i), VARS[code('v%%d_' %% i, 3)], code('lo%%d_' %% i, 2 + i), code('hi%%d_' %% i, 2 + i))
reachable = True
for i in range(k):
    lv, v, lo, hi = spec[i]
    if not lv: continue
    l, h = obj(lo), obj(hi)
    if l is None or h is None:
        reachable = False; break
    n = BDDNode(v, l, h)
    if not isinstance(n, BDDNonTerminalNode) or n.var != v or n.low is not l or n.high is not h:
        reachable = False; break
    pool[i] = n
gc.collect()
if not reachable:
    print('the pre-state of the solver model is not constructible through the public constructor'); sys.exit(0)
av, al, ah = VARS[code('av_', 3)], obj(code('al_', 2 + k)), obj(code('ah_', 2 + k))
if al is None or ah is None:
    print('arguments are not live nodes'); sys.exit(0)
before = {i: (n.var, n.low, n.high) for i, n in pool.items()}
r = BDDNonTerminalNode(av, al, ah)
bad = []
match = [n for n in pool.values() if n.var == av and n.low is al and n.high is ah]
if al is ah:
    if r is not al: bad.append('low is high but the result is not low')
elif match:
    if r is not match[0]: bad.append('a live node with this (var, low, high) exists but another node was returned')
else:
    if any(r is n for n in pool.values()) or r in T: bad.append('no isomorphic node exists but an old node was returned')
    elif not (r.var == av and r.low is al and r.high is ah): bad.append('new node has other fields')
    elif r not in al.f_low or r not in ah.f_high: bad.append('new node is not registered in the parent sets of its children (low.f_low: %%s, high.f_high: %%s)' %% (r in al.f_low, r in ah.f_high))
live = list(pool.values()) + ([r] if isinstance(r, BDDNonTerminalNode) else [])
seen = {}
for n in live:
    key = (n.var, id(n.low), id(n.high))
    if key in seen and seen[key] is not n: bad.append('two live nodes share (var, low, high) = %%s' %% (key,))
    seen[key] = n
if {i: (n.var, n.low, n.high) for i, n in pool.items()} != before: bad.append('an existing node was modified')
print('pool', spec, 'call', (av, al, ah), '->', r)
if bad:
    print('VIOLATION of C16:', bad); sys.exit(1)
print('no violation on this input')
'''


def run_step(rep, tier):
    ks = (2, 3, 4) if tier == 'quick' else (2, 3, 4, 5, 6)
    for t, st, r, secs in pmap(bdd.unique_table_step, [(k,) for k in ks]):
        key = 'unique-table inductive step, pool of %d nodes' % t[0]
        if st != 'ok':
            rep.inconclusive('%s: %s' % (key, r))
            rep.obligation(key, 'error')
            continue
        rep.encoded_add(r['encoded'])
        rep.obligation(key, r['verdict'], r['solver_s'], r['queries'],
                       dict(obligation='from ANY pool of <=%d nodes (each live or collected) satisfying the representation invariant, BDDNonTerminalNode(var, low, high) with arbitrary live arguments returns low / the isomorphic live node / a fresh registered node, touches nothing else, and the invariant holds again' % t[0],
                            unknowns=r['unknowns'], verdict=r['verdict'], gates=r['gates'], twins=dict(allocates=r['twin'], reuses=r['twin_reuse'], invariant_satisfiable=r['twin_inv'])))
        for tw in ('twin', 'twin_reuse', 'twin_inv'):
            if r[tw] != 'sat':
                rep.inconclusive('%s: vacuity twin %s is %s' % (key, tw, r[tw]))
        if r['verdict'] == 'sat':
            path = write_replay('C16', STEP_REPLAY % dict(k=t[0], m=r['model']))
            ok, out = run_replay(path)
            if ok:
                rep.violation('%s: %s' % (key, out.strip().splitlines()[-2:]), path)
            else:
                rep.inconclusive('%s: the solver\'s pre-state does not reproduce natively (invariant too weak or encoding wrong): %s' % (key, out[-200:]))
        elif r['verdict'] != 'unsat':
            rep.inconclusive('%s: %s' % (key, r['verdict']))
