"""Drivers for C12 (SCCs) and C13 (reachability, reversal, subgraph, clone)."""
import itertools, random
from .common import pmap, rng, SEED
from . import graphs

TRUSTED = ['verif.see evaluator + its functional-reduction simplifier (audited by re-proved rewrite lemmas and --no-fold runs)',
           'z3 5.1.0 (z3-new); cvc5 1.0.3 and z3 4.8.12 as cross-checks in the thorough tier', 'CPython 3.12', 'verif.oracles']


def validate_scc(rep, count=150):
    """translator validation: evaluator on all-constant inputs vs the natively running function"""
    from . import see
    from .harness import harness_ctx, GRAPH_MODS
    import pyModelChecking.graph as G
    r = rng('val-scc')
    ok = 0
    for k in range(count):
        n = r.choice([2, 3, 4, 5, 6])
        E = [(i, j) for i in range(n) for j in range(n) if r.random() < 0.35]
        see.reset()
        vm = see.VM(GRAPH_MODS, max_unroll=500, check_unroll=False)
        ctx, fr = harness_ctx(vm)
        g = ctx.call(G.DiGraph, [], {'V': range(n), 'E': E})
        out = ctx.call(G.compute_SCCs, [g], {})
        ents = graphs.seq_entries(ctx, out)
        mine = [list(l.slots[:l.lo]) for gy, l in ents if gy is True]
        real = [list(c) for c in G.compute_SCCs(G.DiGraph(V=range(n), E=E))]
        if mine == real and all(see.is_c(gy) for gy, _ in ents) and not fr.exc:
            ok += 1
        else:
            rep.inconclusive('translator validation failed on edges %s: evaluator %s native %s' % (E, mine, real))
    rep.cov['traces_validated_against_impl'] += ok
    return ok


def absorb(rep, t, st, r, secs, key, replay_fn, describe):
    if st != 'ok':
        rep.inconclusive('%s: %s' % (key, r))
        rep.obligation(key, 'error')
        return
    rep.encoded_add(r.get('encoded', ()))
    v = r['verdict']
    sample = dict(obligation=describe, task=key, verdict=v, encode_s=r['encode_s'], solver_s=r['solver_s'], gates=r['gates'],
                  distinct_functions=r.get('functions'), loops=r.get('loops'), twin=r.get('twin'), audit=r.get('audit'))
    rep.obligation(key, v, r['solver_s'], r['queries'], sample)
    if r.get('unwind_open'):
        rep.cov['bounds'].setdefault('unwinding_assertions_in_query', 0)
        rep.cov['bounds']['unwinding_assertions_in_query'] += r['unwind_open']
    if v == 'sat':
        path, out = replay_fn(r)
        if path:
            rep.violation('%s: counterexample reproduces natively: %s' % (key, out.strip().splitlines()[-2:]), path)
        else:
            rep.inconclusive('%s: solver counterexample does not reproduce natively (encoding problem?) %s' % (key, out[-300:]))
    if r.get('twin') != 'sat':
        rep.inconclusive('%s: vacuity twin is %s (must be sat)' % (key, r.get('twin')))
    a = r.get('audit')
    if a:
        rep.cov.setdefault('audit_rewrites_total', 0)
        rep.cov.setdefault('audit_rewrites_reproved', 0)
        rep.cov['audit_rewrites_total'] += a['total']
        rep.cov['audit_rewrites_reproved'] += a['checked']
        if a.get('unproved'):
            rep.cov['audit_rewrites_unproved_within_budget'] = rep.cov.get('audit_rewrites_unproved_within_budget', 0) + a['unproved']
        if a['failed']:
            rep.inconclusive('%s: %d simplifier lemma batches not re-proved' % (key, a['failed']))


C12_UNIVERSES = [(None, 'a', (0, 1)), ((0, 0), (0, 1), (), None), ('b', frozenset([1]), 1.5, -1)]


def run_c12(rep, tier):
    rep.level = 'model_checking'
    rep.assumptions += ['nodes are small ints (three runs with None / str / tuple / frozenset / float node values at n=3,4,4); set iteration follows one global order of the universe (forked over permutations)',
                        'graphs larger than the stated n are outside the claim']
    rep.cov['trusted_base'] = TRUSTED
    rep.cov['explanation'] = ('compute_SCCs, DiGraph.__init__/nodes/next executed symbolically from source on a graph whose n*n edge '
                              'bits are unknowns; one merged run covers all 2^(n*n) graphs; solver proves: every node in exactly one '
                              'yielded list, no duplicates, same component <=> mutually reachable (Warshall oracle), no exception, '
                              'loops fully unrolled')
    validate_scc(rep, 150 if tier == 'quick' else 500)
    tasks = []
    tasks.append((2, None, False, {}))                          # raw circuits, no simplifier
    for n in (1, 2, 3, 4):
        tasks.append((n, None, True, {}))
    for perm in itertools.permutations(range(3)):
        if list(perm) != [0, 1, 2]:
            tasks.append((3, list(perm), True, {}))
    if tier == 'thorough':
        # (the raw, un-reduced run at n=3 was dropped: 12 unrollings of the main loop without reduction did not finish in 90 min;
        #  the simplifier is audited by the complete lemma re-proofs of the n<=3 runs and the raw n=2 run)
        for perm in itertools.permutations(range(4)):
            if list(perm) != [0, 1, 2, 3]:
                tasks.append((4, list(perm), True, {}))
        forkbits = ['e_%d_%d' % (i, j) for (i, j) in [(0, 0), (1, 1), (2, 2), (3, 3), (4, 4), (0, 1), (1, 0), (2, 3), (3, 2)]]
        for k_, vals in enumerate(itertools.product([False, True], repeat=len(forkbits))):
            tasks.append((5, None, True, dict(zip(forkbits, vals)), k_ % 64 == 0))      # simplifier audit on every 64th fork (6 min each)
    rep.cov['bounds'].update(n_max='5 (all 512 forks)' if tier == 'thorough' else '4 complete; 5: all loop-free graphs + 24 of the 496 remaining forks', orders='all 6 at n=3' + (', all 24 at n=4' if tier == 'thorough' else ''),
                             loop_bound='compute_SCCs while loops: n*n+n iterations; remaining-iteration guard is part of every query',
                             no_fold='n=2')
    # node values other than small ints (None, str, tuple, frozenset, float mixes): the algorithm only hashes and compares them
    for u in C12_UNIVERSES:
        tasks.append((len(u), None, True, {}, False, u))
    # histories on one graph object: compute_SCCs, add_edge through the graph's own API, compute_SCCs again (second answer decided)
    for (n_, hist) in ((2, (1, 0)), (3, (2, 0)), (3, (1, 1)), (4, (3, 1))):
        tasks.append((n_, None, True, {}, False, None, hist))
    graphs_covered = 0
    if tier == 'quick':
        # n=5: the 16 forks without self-loops and a seeded sample of 24 others (each fork covers 65,536 five-node graphs), no simplifier audit
        r5 = rng('c12-n5')
        forkbits = ['e_%d_%d' % (i, j) for (i, j) in [(0, 0), (1, 1), (2, 2), (3, 3), (4, 4), (0, 1), (1, 0), (2, 3), (3, 2)]]
        seen = set()
        for vals in itertools.product([False, True], repeat=4):          # every loop-free 5-node graph (2^20 of them)
            fx = dict(zip(forkbits, (False,) * 5 + vals))
            seen.add(tuple(fx.values()))
            tasks.append((5, None, True, fx, False))
        while len(seen) < 40:                                            # plus 24 seeded forks with self-loops
            fx = {k_: bool(r5.randrange(2)) for k_ in forkbits}
            if tuple(fx.values()) not in seen:
                seen.add(tuple(fx.values()))
                tasks.append((5, None, True, fx, False))
    for t, st, r, secs in pmap(graphs.scc_task, tasks):
        n, perm, fold, fixed = t[:4]
        key = 'scc n=%d order=%s %s%s%s' % (n, perm or 'identity', 'folded' if fold else 'raw', (' fork=%s' % ''.join('1' if v else '0' for v in fixed.values())) if fixed else '', (' nodes=%r' % (t[5],)) if len(t) > 5 and t[5] else '')
        if len(t) > 6 and t[6]:
            key += ' history: compute_SCCs, add_edge%s, compute_SCCs' % (tuple(t[6]),)
        absorb(rep, t, st, r, secs, key, graphs.scc_replay, 'all digraphs on %d nodes: SCC partition == mutual reachability classes' % n)
        if st == 'ok' and r['verdict'] == 'unsat':
            graphs_covered += 2 ** (n * n - len(fixed))
    rep.cov['states'] = graphs_covered
    rep.cov['transitions'] = graphs_covered
    rep.cov['states_meaning'] = 'graph/order instances covered by unsat verdicts (each merged run covers 2^(unknown edge bits) graphs)'


C13_UNIVERSES = [((0, 0), (0, 1), (), ((1,), 2)), (None, 'a', frozenset([1]), 1.5), ('b', ('b',), 0, -1, 'zzz')]


def run_c13(rep, tier):
    rep.level = 'model_checking'
    rep.assumptions += ['node values: 0..n-1, and three other universes (tuples incl. () and a nested one; None/str/frozenset/float; str/tuple/negative int) at n=4,4,5', 'all n nodes present; node subsets may name one non-node (except for reachability, whose start set must hold nodes)',
                        'runs WITHOUT functional reduction: the solver decides the raw circuits']
    rep.cov['trusted_base'] = TRUSTED
    rep.cov['explanation'] = ('get_reachable_set_from / get_reversed_graph (twice) / get_subgraph / clone executed symbolically on a graph with '
                              'unknown edges and an unknown node subset; solver proves equality with closure / flipped matrix / induced '
                              'subgraph, that the receiver is bit-for-bit unchanged, no exception; set objects not shared (identity walk)')
    ns = [2, 3, 4, 5] if tier == 'quick' else [2, 3, 4, 5, 6]
    # (raw reachability at n=6 does not finish within 30 min of z3 time: its bound stays 5; the loop-free operations go to 6)
    tasks = [(n, False, w) for n in ns for w in ('reach', 'reverse', 'subgraph', 'clone') if not (w == 'reach' and n > 5)]
    tasks += [(3, True, w) for w in ('reach', 'reverse', 'subgraph', 'clone')]       # folded twin of the same obligations
    # node values other than small ints: tuples (incl. the empty one and a nested one), None/bool/str/frozenset mixes
    for u in C13_UNIVERSES:
        tasks += [(len(u), False, w, u) for w in ('reach', 'reverse', 'subgraph', 'clone')]
    rep.cov['bounds'].update(n_max='5 for reachability, %d for reverse/subgraph/clone' % max(ns), loop_bound='get_reachable_set_from: n iterations, remaining-iteration guard in the query')
    cov = 0
    for t, st, r, secs in pmap(graphs.reach_task, tasks):
        n, fold, w = t[:3]
        key = '%s n=%d %s%s' % (w, n, 'folded' if fold else 'raw', (' nodes=%r' % (t[3],)) if len(t) > 3 else '')
        absorb(rep, t, st, r, secs, key, graphs.c13_replay, '%s on all digraphs with %d nodes x all node subsets' % (w, n))
        if st == 'ok':
            if r.get('shared'):
                rep.inconclusive('%s: a set object of the result is shared with the receiver' % key)
            if r['verdict'] == 'unsat':
                cov += 2 ** (n * n)
    rep.cov['states'] = cov
    rep.cov['transitions'] = cov
    rep.cov['states_meaning'] = 'graphs covered by unsat verdicts (x all node subsets where a subset is an input)'
    rep.cov['traces_validated_against_impl'] += 0
