"""C10: bounded language inclusion  L(real LALR parser) within L(documented grammar)  decided by SAT.
The LALR table and the contextual lexer's decisions are extracted from the live Parser objects on every run
(Lark itself is never interpreted); the run of Lark's feed_token loop is encoded as a step-indexed transition
system over a symbolic lexeme string; the documented grammar is a CYK table over the same string."""
import sys, time, itertools, importlib
from . import see
from .see import var, b_and, b_or, b_not, b_ite, b_xor, is_c
from .smt import SmtProc
from lark.parsers.lalr_analysis import Shift

def extract(mod):
    P = mod.Parser()
    lk = P._parser
    pf = lk.parser
    tab = pf.parser._parse_table
    lexers = pf.lexer.lexers
    sym = mod.symbols if hasattr(mod, 'symbols') else None
    ops = sorted(set(s for c in mod.alphabet.values() if hasattr(c, 'symbols') and c.__name__ not in ('Bool',) for s in c.symbols))
    lexemes = ops + ['true', 'false', '(', ')', 'p', 'A1', '"s"']
    lexemes = list(dict.fromkeys(lexemes))
    states = sorted(tab.states)
    # contextual lexer decision per (state, lexeme): run the real per-state lexer on the lexeme text
    lex = {}
    for s in states:
        for x in lexemes:
            m = lexers[s].match(x, 0)
            t = None
            if m is not None and m[0] == x:
                t = m[1]
                # keyword embedded in identifier terminal: lark re-types through callbacks
                cb = lexers[s].callback.get(t)
                if cb is not None:
                    from lark.lexer import Token
                    t = cb(Token(t, x)).type
            lex[s, x] = t
    return P, tab, states, lexemes, lex

def onehot(name, k):
    return [var('%s_%d' % (name, i)) for i in range(k)]

def exactly_one(bs):
    return b_and(b_or(*bs), *[b_not(b_and(a, b)) for a, b in itertools.combinations(bs, 2)])

def encode_run(tab, states, lexemes, lex, start, L, D, T):
    S = len(states); sidx = {s: i for i, s in enumerate(states)}
    NX = len(lexemes) + 1; END = len(lexemes)
    w = [onehot('w%d' % p, NX) for p in range(L)]
    wf = b_and(*[exactly_one(w[p]) for p in range(L)], *[b_or(b_not(w[p][END]), w[p + 1][END]) for p in range(L - 1)])
    start_state = tab.start_states[start]; end_state = tab.end_states[start]
    # concrete action table per (state, lexeme or END)
    act = {}
    for s in states:
        for xi in range(NX):
            t = '$END' if xi == END else lex[s, lexemes[xi]]
            a = tab.states[s].get(t) if t is not None else None
            act[s, xi] = a
    sizes = sorted({len(a[1].expansion) for a in act.values() if a is not None and a[0] is not Shift})
    # simulation
    c = [[(i == 0 and st == start_state) for st in states] for i in range(D)]   # c[d][state]
    sp = [h == 1 for h in range(D + 1)]          # stack height one-hot 0..D
    pos = [p == 0 for p in range(L + 1)]
    running, accepted, overflow = True, False, False
    for step in range(T):
        top = [b_or(*[b_and(sp[d + 1], c[d][si]) for d in range(D)]) for si in range(S)]
        cur = [b_or(*([b_and(pos[p], w[p][xi]) for p in range(L)] + ([pos[L]] if xi == END else []))) for xi in range(NX)]
        under = {k: [b_or(*[b_and(sp[d + 1], c[d - k][si]) for d in range(k, D)]) for si in range(S)] for k in sizes}
        push = [False] * S
        is_shift = False; red = {k: False for k in sizes}; err = False; acc = False
        for s in states:
            ts = top[sidx[s]]
            if ts is False: continue
            for xi in range(NX):
                g = b_and(ts, cur[xi])
                if g is False: continue
                a = act[s, xi]
                if a is None:
                    err = b_or(err, g); continue
                if a[0] is Shift:
                    if xi == END: err = b_or(err, g); continue
                    is_shift = b_or(is_shift, g)
                    push[sidx[a[1]]] = b_or(push[sidx[a[1]]], g)
                else:
                    rule = a[1]; k = len(rule.expansion); N = rule.origin.name
                    red[k] = b_or(red[k], g)
                    for s2 in states:
                        u = under[k][sidx[s2]]
                        if u is False: continue
                        gt = tab.states[s2].get(N)
                        if gt is None: continue
                        g2 = b_and(g, u)
                        push[sidx[gt[1]]] = b_or(push[sidx[gt[1]]], g2)
                        if xi == END and gt[1] == end_state:
                            acc = b_or(acc, g2)
        # new height
        nsp = [False] * (D + 1)
        for h in range(1, D + 1):
            if h + 1 <= D: nsp[h + 1] = b_or(nsp[h + 1], b_and(sp[h], is_shift))
            else: overflow = b_or(overflow, b_and(running, sp[h], is_shift))
            for k in sizes:
                nh = h - k + 1
                if 1 <= nh <= D: nsp[nh] = b_or(nsp[nh], b_and(sp[h], red[k]))
                elif nh > D: overflow = b_or(overflow, b_and(running, sp[h], red[k]))
        nc = [[b_ite(nsp[d + 1], push[si], b_and(c[d][si], b_or(*nsp[d + 2:]))) for si in range(S)] for d in range(D)]
        npos = [b_or(b_and(pos[p], b_not(is_shift)), (b_and(pos[p - 1], is_shift) if p > 0 else False)) for p in range(L + 1)]
        accepted = b_or(accepted, b_and(running, acc))
        stop = b_or(err, acc)
        # freeze when not running
        c = [[b_ite(running, nc[d][si], c[d][si]) for si in range(S)] for d in range(D)]
        sp = [b_ite(running, nsp[h], sp[h]) for h in range(D + 1)]
        pos = [b_ite(running, npos[p], pos[p]) for p in range(L + 1)]
        running = b_and(running, b_not(stop))
    return w, wf, accepted, running, overflow

def cyk(w, lexemes, L, grammar, starts):
    """grammar: dict N -> list of RHS (tuples of terminals (lexeme classes as sets) / nonterminals)"""
    NX = len(lexemes) + 1; END = len(lexemes)
    length = [b_and(*( [b_not(w[p][END]) for p in range(n)] + ([w[n][END]] if n < L else []))) for n in range(L + 1)]
    def term(p, cls):
        return b_or(*[w[p][lexemes.index(x)] for x in cls if x in lexemes])
    nts = list(grammar)
    D = {}   # (N,i,j) span [i,j)
    for ln in range(1, L + 1):
        for i in range(0, L - ln + 1):
            j = i + ln
            # iterate to closure for unit rules: process nts in given order twice
            for rnd in range(3):
                for N in nts:
                    alts = []
                    for rhs in grammar[N]:
                        alts.append(match(rhs, i, j, D, term))
                    D[N, i, j] = b_or(D.get((N, i, j), False), *alts)
    return b_or(*[b_and(length[n], b_or(*[D.get((S0, 0, n), False) for S0 in starts])) for n in range(1, L + 1)])

def match(rhs, i, j, D, term):
    if len(rhs) == 1:
        x = rhs[0]
        if isinstance(x, str): return D.get((x, i, j), False)
        return term(i, x) if j == i + 1 else False
    x = rhs[0]
    out = []
    if isinstance(x, str):
        for m in range(i + 1, j):
            a = D.get((x, i, m), False)
            if a is not False: out.append(b_and(a, match(rhs[1:], m, j, D, term)))
    else:
        if j > i + 1: out.append(b_and(term(i, x), match(rhs[1:], i + 1, j, D, term)))
    return b_or(*out)

ATOM = frozenset(['true', 'false', 'p', 'A1', '"s"', 'A', 'E', 'X', 'F', 'G', 'U', 'R', 'not', 'and', 'or'])   # keywords may be read as identifiers: the documented grammar does not restrict names
NOT = frozenset(['not', '~']); BIN = frozenset(['and', '&', 'or', '|', '-->'])
LP = frozenset(['(']); RP = frozenset([')'])
def T(*xs): return frozenset(xs)
DOC = {
 'CTL': ({'S': [(ATOM,), (LP, 'S', RP), (NOT, 'S'), ('S', BIN, 'S'), (T('A', 'E'), 'P')],
          'P': [(T('X', 'F', 'G'), 'S'), ('S', T('U', 'R'), 'S'), (LP, 'P', RP)]}, ['S', 'P']),
 'LTL': ({'R': [(ATOM,), (LP, 'R', RP), (NOT, 'R'), ('R', BIN, 'R'), (T('X', 'F', 'G'), 'R'), ('R', T('U', 'R'), 'R')],
          'S': [(T('A'), 'R')]}, ['S', 'R']),
 'CTLS': ({'S': [(ATOM,), (LP, 'S', RP), (NOT, 'S'), ('S', BIN, 'S'), (T('A', 'E'), 'P')],
           'P': [('S',), (LP, 'P', RP), (NOT, 'P'), ('P', BIN, 'P'), (T('X', 'F', 'G'), 'P'), ('P', T('U', 'R'), 'P')]}, ['P']),
 'PL': ({'S': [(ATOM,), (LP, 'S', RP), (NOT, 'S'), ('S', BIN, 'S')]}, ['S']),
}



def lexeme_string(vals, lexemes, L):
    out = []
    for p in range(L):
        for xi in range(len(lexemes)):
            if vals.get('w%d_%d' % (p, xi)):
                out.append(lexemes[xi])
    return out


def native_parse(logic, text):
    """(outcome, detail): 'formula' with the set of modules of its nodes, or 'error' with exception class and position"""
    mod = importlib.import_module('pyModelChecking.' + logic)
    import pyModelChecking.parser as PP
    try:
        f = mod.Parser()(text)
    except (PP.UnexpectedToken, PP.UnexpectedCharacters) as e:
        return 'error', (type(e).__name__, e.pos, 0 <= e.pos <= len(text))
    except Exception as e:
        return 'other-exception', type(e).__name__
    mods = set()

    def walk(x):
        mods.add(type(x).__module__)
        if hasattr(x, 'subformulas'):
            for s in x.subformulas():
                walk(s)
    if not hasattr(f, 'subformulas'):
        return 'not-a-formula', repr(f)
    walk(f)
    return 'formula', sorted(mods)


# contents tried for the escaped-string lexeme when a witness is replayed (the automaton sees one terminal; the real lexer and
# the transformer see the characters): plain, with a space, escapes of every kind incl. malformed \\x \\u \\N, a quote, a backslash
QUOTED = ['"s"', '"a b"', '"\\""', '"\\\\"', '"\\q"', '"\\x"', '"\\u12"', '"\\N{x}"', '"\\x41"', '"or"', '""']


def layouts(text):
    """the same lexeme string under other whitespace layouts (whitespace is ignored by the grammar; positions must stay inside)"""
    toks = text.split(' ')
    return [text, '\n'.join(toks), '\t'.join(toks), '\r\n'.join(toks), '\n\n' + text, text + '\t', ' \n\t ' + '  '.join(toks)]


def variants(text):
    if '"s"' not in text:
        return layouts(text) if text else [text]
    return [text.replace('"s"', q) for q in QUOTED] + layouts(text)[1:]


def lalr_task(logic, L, nwit=30):
    mod = importlib.import_module('pyModelChecking.' + logic)
    see.reset()
    t0 = time.time()
    P, tab, states, lexemes, lex = extract(mod)
    D = L + 2
    Tn = 4 * L + 6
    w, wf, accepted, running, overflow = encode_run(tab, states, lexemes, lex, 'formula', L, D, Tn)
    g, starts = DOC[logic]
    doc = cyk(w, lexemes, L, g, starts)
    t1 = time.time()
    smt = SmtProc(timeout_ms=1500000)
    rec = dict(logic=logic, L=L, lalr_states=len(states), lexemes=lexemes, encode_s=round(t1 - t0, 1), stack_depth=D, steps=Tn)
    rec['unwind'] = smt.check(wf, b_or(running, overflow))
    rec['verdict'] = smt.check(wf, accepted, b_not(doc))
    if rec['verdict'] == 'sat':
        toks = lexeme_string(smt.values(), lexemes, L)
        rec['witness'] = ' '.join(toks)
        rec['witness_native'] = native_parse(logic, rec['witness'])
    rec['twin'] = smt.check(wf, accepted)
    # witnesses: accepted and rejected strings, replayed through the real parser
    lang_mod = 'pyModelChecking.%s.language' % logic
    wit = dict(accepted=0, rejected=0, problems=[], samples=[])
    for want_acc in (True, False):
        smt.push()
        for _ in range(nwit):
            r = smt.check(wf, accepted if want_acc else b_not(accepted), b_not(running))
            if r != 'sat':
                break
            vals = smt.values()
            toks = lexeme_string(vals, lexemes, L)
            text0 = ' '.join(toks)
            ok = True
            for text in variants(text0):
                out, det = native_parse(logic, text)
                if want_acc:
                    ok1 = out == 'formula' and det == [lang_mod]
                else:
                    ok1 = (out == 'error' and det[2]) or text == ''
                if not ok1:
                    ok = False
                    break
            if True:
                if (not want_acc) and text == '':
                    try:
                        mod.Parser()(text)
                        ok = False
                    except Exception as e:
                        ok = type(e).__name__ in ('UnexpectedToken', 'UnexpectedCharacters')
                        if not ok:
                            out, det = 'other-exception', type(e).__name__
            wit['accepted' if want_acc else 'rejected'] += 1
            if len(wit['samples']) < 8:
                wit['samples'].append((text, out, det))
            if not ok:
                wit['problems'].append(dict(text=text, automaton='accepts' if want_acc else 'rejects', real_parser=out, detail=det))
            # block this string
            lits = []
            for p in range(L):
                for xi in range(len(lexemes) + 1):
                    nm_ = 'w%d_%d' % (p, xi)
                    if vals.get(nm_):
                        lits.append(nm_)
            smt.assert_text('(not (and true %s))' % ' '.join(lits))
        smt.pop()
    rec['witnesses'] = wit
    rec.update(queries=smt.queries, solver_s=round(smt.t_solve, 2), gates=smt.nodes)
    smt.close()
    return rec
