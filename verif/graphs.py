"""C12 / C13: graph.py executed symbolically on all digraphs of a bound."""
import itertools, time
from . import see, oracles
from .see import (VM, GSeq, MSet, MList, var, b_and, b_or, b_not, b_xor, b_iff, fold_b, is_c, alts_of, enable_tt, TT)
from .harness import harness_ctx, exc_guard, unwind_guard, exc_kinds, GRAPH_MODS, GView
from .see import fold as sfold
from .decide import Decider, start_lemma_log
from .common import write_replay, run_replay, SEED


def enames(n):
    return ['e_%d_%d' % (i, j) for i in range(n) for j in range(n)]


def ematrix(n, fixed):
    return [[fixed['e_%d_%d' % (i, j)] if 'e_%d_%d' % (i, j) in fixed else var('e_%d_%d' % (i, j)) for j in range(n)]
            for i in range(n)]


def set_order(perm):
    if perm is not None:
        pos = {s: k for k, s in enumerate(perm)}
        see.ORDER['key'] = lambda x: pos.get(x, len(pos)) if not isinstance(x, tuple) else tuple(pos.get(y, len(pos)) for y in x)


def build_graph(n, fixed, perm, fold, mods=GRAPH_MODS, bounds=None, present=None, u=None):
    import pyModelChecking.graph as G
    names = [x for x in enames(n) if x not in fixed]
    if fold:
        enable_tt(names + ([p for p in (present or [])]))
        start_lemma_log(SEED)
    vm = VM(mods, max_unroll=n * n + n + 2, check_unroll=False)
    if bounds:
        vm.bounds = bounds
    ctx, fr = harness_ctx(vm)
    set_order(perm)
    order = list(perm) if perm is not None else list(range(n))
    e = ematrix(n, fixed)
    u = list(u) if u else list(range(n))
    E = GSeq([(e[i][j], (u[i], u[j])) for i in order for j in order])
    g = ctx.call(G.DiGraph, [], {'V': [u[i] for i in order], 'E': E})
    return vm, ctx, fr, e, g


def seq_entries(ctx, out):
    """(guard, element) pairs of whatever sequence-like value the code under test returned: a generator's guarded yields, a list
    (possibly of symbolic length), an iterator over one, a native list/tuple, or a guarded union of those"""
    ent = []
    for (ga, o) in alts_of(out):
        if isinstance(o, see.ListIter):
            o = o.lst
        if isinstance(o, GSeq):
            ent += [(b_and(ga, g), x) for g, x in o.entries]
        elif isinstance(o, MList):
            ent += [(b_and(ga, ctx.in_len(o, k)), o.slots[k]) for k in range(o.hi)]
        elif isinstance(o, (list, tuple)):
            ent += [(ga, x) for x in o]
        else:
            raise see.Unsupported('compute_SCCs returned %s' % type(o).__name__)
    return ent


# ------------------------------------------------------------------ C12
def scc_task(n, perm, fold, fixed, audit=True, u=None, history=None):
    """all graphs on n nodes (minus forked bits): compute_SCCs == mutual reachability classes
    history=(a, b): compute_SCCs(G); G.add_edge(a, b) on graphs without that edge; compute_SCCs(G) again - the second answer is decided"""
    import pyModelChecking.graph as G
    see.reset()
    t0 = time.time()
    u = list(u) if u else list(range(n))          # node values
    fixed = dict(fixed)
    if history:
        fixed['e_%d_%d' % tuple(history)] = False
    vm, ctx, fr, e, g = build_graph(n, fixed, perm, fold, bounds={'compute_SCCs': n * n + n}, u=u)
    if history:
        ctx.call(G.compute_SCCs, [g], {})
        ctx.call(ctx.getattr1(g, 'add_edge'), [u[history[0]], u[history[1]]], {})
        fixed_now = dict(fixed)
        fixed_now['e_%d_%d' % tuple(history)] = True
    else:
        fixed_now = fixed
    out = ctx.call(G.compute_SCCs, [g], {})
    t1 = time.time()
    comps = []
    ents = seq_entries(ctx, out)
    for (gy, lst) in ents:
        mem = [b_and(gy, b_or(*[b_and(ctx.in_len(lst, k), ctx.eq(lst.slots[k], u[i])) for k in range(lst.hi)])) for i in range(n)]
        dup = b_or(*[b_and(gy, ctx.in_len(lst, k), ctx.in_len(lst, l), ctx.eq(lst.slots[k], lst.slots[l]))
                     for k in range(lst.hi) for l in range(k + 1, lst.hi)])
        foreign = b_or(*[b_and(gy, ctx.in_len(lst, k), b_not(b_or(*[ctx.eq(lst.slots[k], u[i]) for i in range(n)])))
                         for k in range(lst.hi)])
        comps.append((mem, dup, foreign))
    bad = []
    for i in range(n):
        ms = [c[0][i] for c in comps]
        bad.append(b_not(b_or(*ms)))                                                   # node in no component
        bad.append(b_or(*[b_and(ms[a], ms[b]) for a in range(len(ms)) for b in range(a + 1, len(ms))]))   # in two
    bad += [c[1] for c in comps] + [c[2] for c in comps]
    pairs = [(i, j) for i in range(n) for j in range(i + 1, n)]
    same = [b_or(*[b_and(c[0][i], c[0][j]) for c in comps]) for (i, j) in pairs]
    bad.append(exc_guard(fr))
    bad.append(unwind_guard(vm))
    encoded = sorted(vm.encoded)
    loops = {('%s:%d' % k): v for k, v in vm.stats['loops'].items()}
    d = Decider(timeout_ms=1800000)
    e2 = ematrix(n, fixed_now)
    reach = oracles.closure(e2, n)
    want = [b_and(reach[i][j], reach[j][i]) for (i, j) in pairs]
    r = d.differ(same, want, bad)
    res = dict(kind='scc', n=n, perm=perm, fold=fold, fixed=len(fixed), fixed_bits={k: bool(v) for k, v in fixed.items()}, history=list(history) if history else None, univ=(u if u != list(range(n)) else None), verdict=r, encode_s=round(t1 - t0, 2), yields=len(ents),
               exc=exc_kinds(fr), loops=loops, encoded=encoded, unwind_open=len(vm.unwind))
    if r == 'sat':
        m = d.differ_model(same, want, bad)
        res['model'] = {k: v for k, v in m.items()}
    tw = d.holds(same[0]) if same else 'sat'
    res['twin'] = tw
    if fold and audit:
        res['audit'] = d.audit()
    res.update(d.stats())
    d.close()
    return res


SCC_REPLAY = '''
from pyModelChecking.graph import DiGraph, compute_SCCs
n = %(n)d
order = %(order)r
E = %(E)r
class St(object):
    """node whose hash realises the iteration order explored by the check"""
    def __init__(self, i, pos): self.i, self.pos = i, pos
    def __hash__(self): return self.pos
    def __eq__(self, o): return self is o
    def __repr__(self): return 'St(%%d)' %% self.i
plain = %(plain)r
univ = %(univ)r
nodes = (list(univ) if univ else list(range(n))) if plain else [St(i, order.index(i)) for i in range(n)]
G = DiGraph(V=[nodes[i] for i in order], E=[(nodes[i], nodes[j]) for (i, j) in E])
hist = %(hist)r
if hist:
    print('history: compute_SCCs ->', [list(c) for c in compute_SCCs(G)], '; then add_edge', tuple(hist), '; then compute_SCCs again')
    G.add_edge(nodes[hist[0]], nodes[hist[1]])
    E = E + [tuple(hist)]
idx = (lambda v: (univ.index(v) if univ else v)) if plain else (lambda v: v.i)
try:
    comps = [[idx(v) for v in c] for c in compute_SCCs(G)]
except Exception as ex:
    print('edges', E, 'order', order, 'nodes', nodes)
    print('VIOLATION of C12: compute_SCCs raised %%s: %%s' %% (type(ex).__name__, ex)); sys.exit(1)
reach = [[i == j or (i, j) in E for j in range(n)] for i in range(n)]
for k in range(n):
    reach = [[reach[i][j] or (reach[i][k] and reach[k][j]) for j in range(n)] for i in range(n)]
bad = []
for i in range(n):
    c = sum(comp.count(i) for comp in comps)
    if c != 1: bad.append('node %%d appears %%d times' %% (i, c))
for i in range(n):
    for j in range(n):
        same = any(i in comp and j in comp for comp in comps)
        if same != (reach[i][j] and reach[j][i]): bad.append('nodes %%d,%%d: same component=%%s, mutually reachable=%%s' %% (i, j, same, reach[i][j] and reach[j][i]))
print('edges', E, 'order', order, '-> components', comps)
if bad:
    print('VIOLATION of C12:', bad[:4]); sys.exit(1)
print('no violation on this input')
'''


def scc_replay(res):
    n, perm, m = res['n'], res['perm'] or list(range(res['n'])), res['model']
    m = dict(m)
    m.update(res.get('fixed_bits') or {})
    E = [(i, j) for i in range(n) for j in range(n) if m.get('e_%d_%d' % (i, j))]
    for plain in ([True] if list(perm) == list(range(n)) else [False, True]):
        body = SCC_REPLAY % dict(n=n, order=list(perm) if not plain else list(range(n)), E=E, plain=plain, univ=res.get('univ'), hist=res.get('history'))
        path = write_replay('C12', body)
        ok, out = run_replay(path)
        if ok:
            return path, out
    return None, out


# ------------------------------------------------------------------ C13
def reach_task(n, fold, what, u=None, bound=None):
    """get_reachable_set_from / get_reversed_graph / get_subgraph / clone on all graphs with node presence,
    all node subsets (which may name non-nodes). Run WITHOUT functional reduction by default."""
    import pyModelChecking.graph as G
    u = list(u) if u else list(range(n))          # the n node values; `out` is a value that is never a node
    out = n if u == list(range(n)) else 'zz'
    see.reset()
    t0 = time.time()
    names = enames(n) + ['x_%d' % i for i in range(n + 1)]
    if fold:
        enable_tt(names)
        start_lemma_log(SEED)
    # code-derived bound: every node enters the work list at most once and the start set holds nodes only, so the loop body runs
    # at most n times; the guard of an (n+1)-th iteration is an unwinding assertion in the query
    # (a differently structured loop - say one work-list step per edge - needs more: when only the unwinding assertion fails,
    # the task is run again with the bound n*n+2n+1, see the end of this function)
    vm = VM(GRAPH_MODS, max_unroll=bound or n, check_unroll=False)
    vm.bounds = {'DiGraph.get_reachable_set_from': bound or n}
    ctx, fr = harness_ctx(vm)
    e = ematrix(n, {})
    g = ctx.call(G.DiGraph, [], {'V': list(u), 'E': GSeq([(e[i][j], (u[i], u[j])) for i in range(n) for j in range(n)])})
    nxt = g.attrs['_next']
    snap = {(i, j): fold_b(nxt.vals[u[i]], lambda s: s.get(u[j])) for i in range(n) for j in range(n)}
    snap_obj = {i: nxt.vals[u[i]] for i in range(n)}
    x = [var('x_%d' % i) for i in range(n + 1)]          # index n = a value that is not a node
    X = MSet()
    for i in range(n + 1):
        X.put((u + [out])[i], x[i])
    impl, bad, twin = [], [], True
    shared = False

    def unchanged():
        ch = [b_xor(fold_b(nxt.vals[u[i]], lambda s: s.get(u[j])), snap[i, j]) for i in range(n) for j in range(n)]
        ch += [b_not(nxt.present[u[i]]) for i in range(n)]
        ch += [p for k, p in nxt.present.items() if k not in u]
        for i in range(n):
            for (ga, s) in alts_of(nxt.vals[u[i]]):
                ch += [b_and(ga, b) for k, b in s.bits.items() if k not in u]
        return ch
    wants = None
    if what == 'reach':
        # precondition of the call: the start set holds nodes only (next() of a non-node raises by contract)
        xs = MSet()
        for i in range(n):
            xs.put(u[i], x[i])
        R = ctx.call(ctx.getattr1(g, 'get_reachable_set_from'), [xs], {})
        impl = [fold_b(R, lambda s: s.get(u[j])) for j in range(n)]
        bad += [b for k, b in R.bits.items() if k not in u] if isinstance(R, MSet) else []
        bad.append(fold_b(R, lambda s: s is xs))            # result must be a new object, not the argument
        twin = b_and(impl[n - 1], b_not(x[n - 1]))
    elif what == 'reverse':
        r = ctx.call(ctx.getattr1(g, 'get_reversed_graph'), [], {})
        rv = GView(r)
        impl = [rv.member(u[i], u[j]) for i in range(n) for j in range(n)]
        bad += [b_not(rv.node(u[i])) for i in range(n)] + [rv.foreign_keys(u), rv.foreign_members(u)]
        rr = ctx.call(sfold(r, lambda o: ctx.getattr1(o, 'get_reversed_graph')), [], {})
        rrv = GView(rr)
        impl += [rrv.member(u[i], u[j]) for i in range(n) for j in range(n)]
        bad += [b_not(rrv.node(u[i])) for i in range(n)] + [rrv.foreign_keys(u), rrv.foreign_members(u)]
        shared = any(q is o for q in rv.set_objects() + rrv.set_objects() for o in snap_obj.values()) or any(d is nxt for d in rv.dict_objects() + rrv.dict_objects())
        twin = b_and(impl[1], b_not(e[0][1]))
    elif what == 'subgraph':
        s = ctx.call(ctx.getattr1(g, 'get_subgraph'), [X], {})
        sv = GView(s)
        impl = [sv.node(u[i]) for i in range(n)]
        impl += [sv.member(u[i], u[j]) for i in range(n) for j in range(n)]
        bad += [sv.foreign_keys(u), sv.foreign_members(u), b_not(sv.defined)]
        shared = any(q is o for q in sv.set_objects() for o in snap_obj.values()) or any(d is nxt for d in sv.dict_objects())
        twin = b_and(impl[0], b_not(impl[1]))
    elif what == 'clone':
        c = ctx.call(ctx.getattr1(g, 'clone'), [], {})
        cv = GView(c)
        impl = [cv.member(u[i], u[j]) for i in range(n) for j in range(n)]
        bad += [b_not(cv.node(u[i])) for i in range(n)] + [cv.foreign_keys(u), cv.foreign_members(u)]
        shared = any(x is g for _, x in alts_of(c)) or any(d is nxt for d in cv.dict_objects()) or any(q is o for q in cv.set_objects() for o in snap_obj.values())
        # independence: mutate the clone through the real API and directly, the original must not move
        ctx.call(sfold(c, lambda o: ctx.getattr1(o, 'add_node')), ['fresh'], {})
        for q in cv.set_objects():
            if isinstance(q, MSet):
                q.put('mut', True)
        twin = impl[1]
    bad += unchanged()
    if what == 'reverse':
        # independence of the results from later changes of the receiver: G is modified through its own API, then the
        # (old) reversed graph is reversed again and must still give the OLD graph
        ctx.call(ctx.getattr1(g, 'add_node'), ['fresh'], {})
        ctx.call(ctx.getattr1(g, 'add_edge'), ['fresh', u[0]], {})
        ctx.call(ctx.getattr1(g, 'add_edge'), [u[0], 'fresh2'], {})
        rr2 = ctx.call(sfold(r, lambda o: ctx.getattr1(o, 'get_reversed_graph')), [], {})
        rr2v = GView(rr2)
        impl += [rr2v.member(u[i], u[j]) for i in range(n) for j in range(n)]
        bad += [b_not(rr2v.node(u[i])) for i in range(n)] + [rr2v.foreign_keys(u), rr2v.foreign_members(u)]
        rv2 = GView(r)
        bad += [rv2.foreign_keys(u), rv2.foreign_members(u)]       # the first reversed graph did not move either
        # history: the receiver's OWN later answers follow its modifications (no stale memo, no result handed out twice):
        # reverse the modified G, modify that result, add one more node to G, reverse G again
        uu = list(u) + ['fresh', 'fresh2']
        hist_edges = {(u[0], 'fresh'), ('fresh2', u[0])}
        r3 = ctx.call(ctx.getattr1(g, 'get_reversed_graph'), [], {})
        r3v = GView(r3)
        impl += [r3v.member(a, b) for a in uu for b in uu]
        bad += [b_not(r3v.node(a)) for a in uu]
        ctx.call(sfold(r3, lambda o: ctx.getattr1(o, 'add_edge')), ['fresh', 'fresh2'], {})
        ctx.call(ctx.getattr1(g, 'add_node'), ['fresh3'], {})
        r4 = ctx.call(ctx.getattr1(g, 'get_reversed_graph'), [], {})
        r4v = GView(r4)
        impl += [r4v.member(a, b) for a in uu for b in uu]
        bad += [b_not(r4v.node(a)) for a in uu + ['fresh3']]
    bad.append(exc_guard(fr))
    bad.append(unwind_guard(vm))
    t1 = time.time()
    encoded = sorted(vm.encoded)
    loops = {('%s:%d' % k): v for k, v in vm.stats['loops'].items()}
    d = Decider(timeout_ms=1800000)
    e2 = ematrix(n, {})
    x2 = [var('x_%d' % i) for i in range(n + 1)]
    if what == 'reach':
        reach = oracles.closure(e2, n)
        want = [b_or(*[b_and(x2[i], reach[i][j]) for i in range(n)]) for j in range(n)]
    elif what == 'reverse':
        want = [e2[j][i] for i in range(n) for j in range(n)] + [e2[i][j] for i in range(n) for j in range(n)] + [e2[i][j] for i in range(n) for j in range(n)]
        uu = list(u) + ['fresh', 'fresh2']
        hist = [(e2[uu.index(b)][uu.index(a)] if (a in u and b in u) else ((a, b) in ((u[0], 'fresh'), ('fresh2', u[0])))) for a in uu for b in uu]
        want += hist + hist
    elif what == 'subgraph':
        want = [x2[i] for i in range(n)] + [b_and(x2[i], x2[j], e2[i][j]) for i in range(n) for j in range(n)]
    else:
        want = [e2[i][j] for i in range(n) for j in range(n)]
    if what == 'reach' and bound is None and n <= (4 if fold else 3) and d.violated(unwind_guard(vm)) == 'sat':
        d.close()
        return reach_task(n, fold, what, u, bound=n * n + 2 * n + 1)
    r = d.differ(impl, want, bad)
    res = dict(kind=what, n=n, fold=fold, univ=u, out=out, loop_bound=bound or n, verdict=r, encode_s=round(t1 - t0, 2), shared=bool(shared), exc=exc_kinds(fr),
               loops=loops, encoded=encoded, unwind_open=len(vm.unwind))
    if r == 'sat':
        res['model'] = d.differ_model(impl, want, bad)
    res['twin'] = d.holds(twin)
    if fold:
        res['audit'] = d.audit()
    res.update(d.stats())
    d.close()
    return res


C13_REPLAY = '''
from pyModelChecking.graph import DiGraph
n = %(n)d; u = %(u)r; E = %(E)r; X = %(X)r; what = %(what)r
G = DiGraph(V=list(u), E=E)
before = {v: set(G.next(v)) for v in G.nodes()}
bad = []
if what == 'reach':
    X0 = set(X)
    got = G.get_reachable_set_from(X0)
    want = set(X); ch = True
    while ch:
        ch = False
        for (a, b) in E:
            if a in want and b not in want: want.add(b); ch = True
    if got != want: bad.append('reachable set %%s, expected %%s' %% (got, want))
    if got is X0: bad.append('the result is the argument object')
elif what == 'reverse':
    r = G.get_reversed_graph()
    if set(r.nodes()) != set(u) or set(r.edges()) != {(b, a) for (a, b) in E}: bad.append('reversed graph %%s' %% r)
    rr = r.get_reversed_graph()
    if set(rr.nodes()) != set(u) or set(rr.edges()) != set(E): bad.append('double reversal %%s' %% rr)
    G2 = DiGraph(V=list(u), E=E); r2 = G2.get_reversed_graph()
    G2.add_node('fresh'); G2.add_edge('fresh', u[0]); G2.add_edge(u[0], 'fresh2')
    rr2 = r2.get_reversed_graph()
    if set(rr2.nodes()) != set(u) or set(rr2.edges()) != set(E): bad.append('reversing the reversed graph after the original was modified gives %%s' %% rr2)
    E3 = {(b, a) for (a, b) in E} | {(u[0], 'fresh'), ('fresh2', u[0])}
    r3 = G2.get_reversed_graph()
    if set(r3.nodes()) != set(u) | {'fresh', 'fresh2'} or set(r3.edges()) != E3: bad.append('reversal of the modified graph gives %%s' %% r3)
    r3.add_edge('fresh', 'fresh2'); G2.add_node('fresh3')
    r4 = G2.get_reversed_graph()
    if set(r4.nodes()) != set(u) | {'fresh', 'fresh2', 'fresh3'} or set(r4.edges()) != E3: bad.append('history reverse / add_node / reverse: second reversal gives %%s' %% r4)
elif what == 'subgraph':
    s = G.get_subgraph(set(X))
    if set(s.nodes()) != set(X) & set(u) or set(s.edges()) != {(a, b) for (a, b) in E if a in X and b in X}: bad.append('subgraph %%s' %% s)
else:
    c = G.clone()
    if set(c.nodes()) != set(u) or set(c.edges()) != set(E): bad.append('clone %%s' %% c)
    c.add_node('fresh')
    for v in list(c.nodes()): c.next(v).add('mut')
after = {v: set(G.next(v)) for v in G.nodes()}
if after != before: bad.append('the graph was modified: %%s -> %%s' %% (before, after))
print(what, 'E =', E, 'X =', X)
if bad:
    print('VIOLATION of C13:', bad); sys.exit(1)
print('no violation on this input')
'''


def c13_replay(res):
    n, m = res['n'], res['model']
    u = list(res.get('univ') or range(n))
    uu = u + [res.get('out', n)]
    E = [(u[i], u[j]) for i in range(n) for j in range(n) if m.get('e_%d_%d' % (i, j))]
    X = [uu[i] for i in range(n + 1) if m.get('x_%d' % i) and (i < n or res['kind'] != 'reach')]
    path = write_replay('C13', C13_REPLAY % dict(n=n, u=u, E=E, X=X, what=res['kind']))
    ok, out = run_replay(path)
    return (path if ok else None), out
