"""CLI: python -m verif.check <ID> --tier quick|thorough"""
import sys, os, argparse, importlib, time, traceback
from . import common
from .common import Report, EXIT_INCONCLUSIVE

REGISTRY = {
    'C01': ('verif.p_mc', 'run_c01'),
    'C02': ('verif.p_mc', 'run_c02'),
    'C03': ('verif.p_mc', 'run_c03'),
    'C04': ('verif.p_mc', 'run_c04'),
    'C05': ('verif.p_mc', 'run_c05'),
    'C06': ('verif.p_mc', 'run_c06'),
    'C07': ('verif.p_mc', 'run_c07'),
    'C08': ('verif.p_syntax', 'run_c08'),
    'C09': ('verif.p_syntax', 'run_c09'),
    'C10': ('verif.p_syntax', 'run_c10'),
    'C11': ('verif.p_syntax', 'run_c11'),
    'C12': ('verif.p_graph', 'run_c12'),
    'C16': ('verif.p_bdd', 'run_c16'),
    'C17': ('verif.p_bdd', 'run_c17'),
    'C18': ('verif.p_bdd', 'run_c18'),
    'C19': ('verif.p_mc', 'run_c19'),
    'C14': ('verif.p_kripke', 'run_c14'),
    'C15': ('verif.p_mc', 'run_c15'),
    'C13': ('verif.p_graph', 'run_c13'),
}


def main(argv=None):
    ap = argparse.ArgumentParser()
    ap.add_argument('pid')
    ap.add_argument('--tier', default=os.environ.get('VERIF_TIER', 'quick'), choices=['quick', 'thorough'])
    ap.add_argument('--replay')
    a = ap.parse_args(argv)
    if a.replay:
        ok, out = common.run_replay(a.replay)
        print(out)
        if ok:
            print('VIOLATION property=%s replay=%s' % (a.pid, a.replay))
        return 1 if ok else 0
    if a.pid not in REGISTRY:
        print('unknown or unclaimed property', a.pid)
        return EXIT_INCONCLUSIVE
    modname, fn = REGISTRY[a.pid]
    mod = importlib.import_module(modname)
    rep = Report(a.pid, a.tier)
    try:
        getattr(mod, fn)(rep, a.tier)
    except Exception as e:
        traceback.print_exc()
        rep.inconclusive('harness error: %s: %s' % (type(e).__name__, e))
    return rep.finish()


if __name__ == '__main__':
    sys.exit(main())
