"""Regenerates MANIFEST.json from the table below (keeps it valid at every commit)."""
import json, os, sys
ROOT = os.path.dirname(os.path.dirname(os.path.abspath(__file__)))

SOLVER = 'symbolic execution of the real source (verif.see) + SMT (z3 5.1) equivalence against an independent oracle circuit'
CHECKS = {
    'C01': dict(cat='model_checking', ref='4/C01',
                text='CTL.modelcheck and everything below it is executed symbolically from source on a Kripke structure whose transition and label bits are unknowns: one merged run per formula covers every total structure with n<=3 states over {p,q} (n=4 with label bits forked). z3 proves the result vector equal to an independently built CTL fixpoint circuit, absence of exceptions and complete unrolling; ~3,000 formulas quick (depth<=2 and a depth-3 slice), ~12,000 in thorough; E G p, A(p U q), E(p R q) on all 256 label forks at n=4 (every 4-state structure), label-independent formulas at n=4 in one fork. The formula dimension is enumeration of programs.',
                note='bounded: n<=3 merged, n=4 sampled forks (all 256 in thorough); 2 atoms; formulas from stated sets; evaluator/simplifier trusted but audited (all rewrite lemmas re-proved per run, 13 raw n=2 runs, translator validation vs native)',
                tech=SOLVER),
    'C02': dict(cat='model_checking', ref='4/C02',
                text='LTL.modelcheck (closure, atom construction, tableau, SCCs, reachability) executed symbolically; per formula A g one merged run covers all total structures with n<=2 states (n=3 for one formula per temporal operator in quick, 85 formulas in thorough); z3 proves equality with a product/Emerson-Lei oracle circuit whose fixpoint stability is itself a solver obligation; the oracle\'s exclusions are certified by solver-found concrete lassos re-evaluated by an independent lasso evaluator.',
                note='bounded: n<=2 (3), 2 atoms, ~1,300 path formulas (all of depth<=2, every unary chain of depth 3, n-ary and/or, seeded depth-3 ones), cost cut by number of elementary formulas e<=3 (4 at n=1); no raw (un-reduced) run possible for the tableau; /repo at fix commits dce0478+a1b7f49',
                tech=SOLVER),
    'C03': dict(cat='model_checking', ref='4/C03',
                text='CTLS.modelcheck incl. clone, fresh-atom labelling, CTL fast path, TypeError->LTL fallback and the E=not A not branch executed symbolically; per formula one merged run covers all total structures with n<=2 (n=3 for two non-CTL formulas in quick, 42 formulas in thorough); z3 proves equality with the CTL* product oracle circuit. ~290 formulas with quantifier nesting <=2 incl. n-ary connectives under quantifiers.',
                note='bounded: n<=2 (n=3 slice), 2 atoms, formulas from stated sets (enumeration of programs); vacuity twin: some runs must encode the LTL fallback',
                tech=SOLVER),
    'C04': dict(cat='model_checking', ref='4/C04',
                text='No oracle: two or three implementation runs share one symbolic structure and z3 proves their result vectors equal -- CTL vs CTLS on ~120 CTL formulas (n=3), LTL vs CTL vs CTLS on the common fragment (n=2), n-ary formulas over a third atom, text vs object input, and 16 CTL / 7 LTL law schemas (complement, and/or/implies, A g = not E not g, fixpoint expansions) over formula pairs (f,g) as identities between result vectors.',
                note='bounded: n<=3 (2 where the tableau runs); formula pairs from stated sets; catches an implementation and the oracle of C01-C03 being wrong in the same way',
                tech='symbolic execution of the real source (verif.see) + SMT (z3 5.1) equivalence between implementation circuits'),
    'C05': dict(cat='model_checking', ref='4/C05',
                text='get_equivalent_restricted_formula and LNot run natively on ~5,000 enumerated formulas (operator pairs and triples over distinct atoms, unary chains, every depth-3 shape with a binary operator below or between unary ones) of the three logics; input and output formula are both translated by the reference semantics into circuits over symbolic models and z3 searches for a distinguishing model: every total Kripke structure with 3 states (state formulas) and every (k,l)-lasso with k<=5 (path formulas). Output alphabet and "no leading double negation" are checked on the trees.',
                note='no model-checking code is involved; formula dimension is enumeration of programs; known finding D12 (LTL A-rooted formulas raise AttributeError) is excluded by construction and reported',
                tech='SMT (z3 5.1) equivalence of two oracle circuits over symbolic models; rewriters run natively'),
    'C06': dict(cat='model_checking', ref='4/C06',
                text='The exactness obligations of C01-C03 re-decided under varied presentation: all 6 orders of presenting/iterating 3 states, 6 (23 thorough) orders of 4 states for the EG-type formulas over all 16 p-labellings, states renamed to strings/tuples/mixed types, atoms renamed, seeded global orders of formula sets (tie order of the closure sort; models the hash seed) incl. CTL* formulas that reach the tableau, and an unreachable extra state; the oracle is presentation-independent, so unsat for all is invariance.',
                note='order model = one global order per run (per-site independent orders outside); PYTHONHASHSEED as a process setting is not what the solver decides -- it is modelled through the order of sets; sample of 4 (24 thorough) formula-set orders',
                tech=SOLVER + ', iteration order forked'),
    'C07': dict(cat='model_checking', ref='4/C07',
                text='Heap obligations on the symbolic runs of all three checkers (with/without F, text/object): z3 proves every bit of the caller\'s structure (successor sets, label sets incl. new atoms, S0, object identities) equals its pre-call snapshot; result shares no set with K; formula prints unchanged; call / call-on-other-structure-with-same-formula / call returns equal vectors; call / same checker with the OTHER kind of arguments (with F if this call has none, without if it has one) on another structure / call returns equal vectors; call / mutate result / call returns equal vectors; call / the caller edits K in place / call returns the answer for the edited structure (module-level containers and names rebound through `global` persist across the calls of a run).',
                note='bounded: n<=3; histories of length 3; class attributes rebound at run time are not modelled (such a tree would make the run inconclusive)',
                tech=SOLVER + ' (heap snapshot equality)'),
    'C08': dict(cat='model_checking', ref='4/C08',
                text='Solver part: the acceptance behaviour of the real constructors is a finite local table (operator x operand classes) regenerated on every run by executing them on class representatives; a symbolic complete binary operator tree over the union alphabet (depth<=5, 63 positions) is evaluated once with that table (buildable / castable into the language) and once with the documented grammar (state / path / A-rooted / not a formula); z3 searches for a tree where they differ, for each of PL, CTL, LTL, CTL*. Exploration part (natively): ~30,000 trees (all of depth<=1, a large part of depth 2, every unary chain of depth 3, sampled depth 4) built with the real constructors, ~100,000 casts between the four languages (same shape, nodes of the target module, TypeError exactly when undocumented), 13 modelcheck guard cases.',
                note='arity-respecting trees only: wrong-arity constructions are OPEN known finding D11; the locality assumption behind the table is what the native exploration validates',
                tech='decision table extracted from the live constructors + SAT (z3 5.1) over all operator trees of bounded depth; native exploration for casts and guards'),
    'C09': dict(cat='model_checking', ref='4/C09',
                text='Solver part: the grammar of printed forms is extracted on every run from the real __str__ methods; over a symbolic lexeme string (<=10 lexemes quick, 12 thorough) a CYK table with explicit justifications is built and z3 searches for a string with two different derivations (two trees printing identically), and for a printed form (<=4/5 lexemes) that the LALR automaton extracted from the live parser rejects. The premise of that grammar model -- printing is compositional on every (operator, arity, position, class of operand) context -- is checked on every run, and all 100-230k trees of height<=2 per logic are grouped by printed form. Exploration part (natively): Parser()(str(f)) structurally equal to f on ~4,800 enumerated formulas of PL/LTL/CTL*/CTL (cast to CTL*) over a lexer-stressing atom pool.',
                note='printed length bound, not depth bound; atoms identifier-style and not reserved; tree equality of the round trip is enumeration',
                tech='grammar extracted from the live printers + SAT (z3 5.1) bounded ambiguity / inclusion; native round trips'),
    'C10': dict(cat='model_checking', ref='4/C10',
                text='The LALR table and contextual-lexer decisions are extracted from the live Parser() of each logic on every run; the parser loop on a symbolic lexeme string (<=4 lexemes quick, 5 thorough; 14-21 lexemes incl. all operator spellings, identifiers, an escaped string) is a step-indexed transition system with explicit stack; the documented grammar is a CYK table over the same string; z3 proves accepts(w) -> documented(w), that every run terminates without stack overflow; solver-enumerated accepted and rejected strings are replayed through the real parser (formula of exactly that logic / UnexpectedToken|UnexpectedCharacters with position inside the input), the escaped-string lexeme instantiated with 11 contents (quotes, backslashes, malformed escapes) and every witness under 6 whitespace layouts; ~470 cross-fed strings natively. The position arithmetic between Lark\'s error and the raised ParserError is decided by CrossHair on a symbolic character string (<=4 chars quick, 6 thorough; Lark stubbed by its contract 0 <= pos_in_stream <= len): matching error class, 0 <= pos <= len(input), input unchanged.',
                note='automaton query is token level: character-level lexing and strings longer than L lexemes are outside it; Lark is never interpreted, its table is taken as the definition of the real parser and validated by the replays',
                tech='parser automaton extracted from the live objects + SAT (z3 5.1) bounded language inclusion against a CYK encoding of the documented grammar; CrossHair (symbolic str, z3) for the error-position arithmetic'),
    'C11': dict(cat='model_checking', ref='4/C11',
                text='Formula.__eq__/__hash__ are defined through str(), so "f == g iff same tree" is injectivity of printing: decided by z3 on the printed-form grammar extracted from the real __str__ methods (<=10/12 lexemes, shared machinery with C09, incl. the per-run check that printing is compositional and the grouping of all height<=2 trees by printed form). Symmetry, transitivity, hash/set/dict behaviour, clone independence and Bool-vs-bool in both directions are explored natively over ~270k pairs and 12k triples; CrossHair checks three __eq__/__hash__ conditions with symbolic atom names.',
                note='pairs/triples are enumeration; atoms not reserved words; CrossHair conditions that are not "confirmed over all paths" are reported as such',
                tech='SAT (z3 5.1) bounded unambiguity of the extracted printed-form grammar; CrossHair (symbolic str) for __eq__/__hash__; native pair/triple walk'),
    'C12': dict(cat='model_checking', ref='4/C12',
                text='compute_SCCs is executed symbolically from its source on a graph whose edge bits are unknowns: one merged run per node order covers all 2^(n*n) digraphs (n<=4 quick plus every loop-free 5-node graph and 24 seeded forks with self-loops; all 512 forks at n=5 and all 24 orders at n=4 thorough); three runs with None / str / tuple / frozenset / float node values. The solver proves partition + mutual-reachability equivalence against a Warshall oracle circuit, absence of exceptions and complete loop unrolling; sat models are replayed natively.',
                note='bounded: n<=4 complete, n=5 loop-free complete (all of n=5 in thorough); one global iteration order per run; evaluator and simplifier trusted but audited (rewrite lemmas re-proved, n=2 raw run, translator validation vs native on 150 random graphs)',
                tech=SOLVER),
    'C13': dict(cat='model_checking', ref='4/C13',
                text='get_reachable_set_from (n<=5), get_reversed_graph (once, twice, and again after the receiver was modified), get_subgraph and clone (n<=5, 6 thorough) run symbolically WITHOUT functional reduction on all digraphs and all node subsets, with nodes 0..n-1 and under three further universes of node values (tuples incl. () and a nested one; None/str/frozenset/float; str/tuple/negative int); solver proves equality with closure / flipped matrix / induced subgraph circuits and that the receiver is unchanged and shares no set object.',
                note='bounded: n<=5/6; all nodes present, subsets may name one non-node; raw circuits decided by z3',
                tech=SOLVER + ' (raw circuits, no simplifier)'),
    'C14': dict(cat='model_checking', ref='4/C14',
                text='Kripke.__init__, labels/next, clone and get_substructure executed symbolically with symbolic membership of S, R, S0, symbolic keys/values of L and a symbolic subset V over a 3-value universe (+1 never-a-state value) for three choices of the state values (ints; tuples (0,0),(0,1),(); mixed str/tuple/int): z3 proves "raises RuntimeError <=> some node has no successor", no other exception type, exact contents of the constructed/cloned/induced structure, label sets are copies, receiver unchanged, and the accessor contract again after replace_labelling_function with symbolic keys and a non-state key. 240 forks x 2^15-2^16 argument combinations. A state whose value is None is OPEN known finding D16 (labels(None) is the whole-structure form) and is outside the universes.',
                note='bounded: universe of 3 (+1), one atom; /repo at fix commit 36a2c0d',
                tech=SOLVER),
    'C15': dict(cat='model_checking', ref='4/C15',
                text='get_fair_states and CTL/CTLS.modelcheck(K,f,F) executed symbolically with symbolic fairness sets (|F|<=2) and compared by z3 with an Emerson-Lei fair-semantics oracle. Holds and is decided: get_fair_states is a subset of the fair states AND closed under predecessors on every input (n<=4); equality and modelcheck==fair semantics outside the classes of the four OPEN known findings D7-D10 (class predicates are conjoined negated to the violation query; each listed witness is re-found natively and printed as KNOWN-FINDING); F=[] and F=[S] equal the unconstrained answer; no exception and K unchanged also inside the classes.',
                note='bounded: n<=3 (two atoms; get_fair_states itself n<=4 with |F|<=1), |F|<=2, ~150 CTL formulas without constants; genuine defects D7-D10 are recorded, not repaired (reasons in known_findings.json / DESIGN.md section 5); /repo at fix commit 3d1a560',
                tech=SOLVER),
    'C16': dict(cat='model_checking', ref='4/C16',
                text='The real unique table (BDDNode/BDDNonTerminalNode/BDDTerminalNode.__new__, find_isomorph, __reset__), apply/compute, __invert__, restrict and the OBDD wrappers run symbolically with the truth-table bits of two functions as unknowns: one merged run covers all ordered pairs (2 variables: all ops; 3 variables: all 65,536 pairs for construction, &,|,^ with one operand pinned to each literal/constant in quick, all pairs in thorough; 4 variables: one operand pinned to a literal or to one of 4 (8 + 24 seeded in thorough) non-literal functions and the other arbitrary, restrict on each variable for all 65,536 functions). z3 proves identical root <=> equal tables, OBDD.__eq__ agrees, and no two live non-terminals share (var, low, high). Histories of any length with dropping and collection are covered by ONE INDUCTIVE STEP: from an arbitrary pool of <=4 (6 thorough) nodes, each live or collected, satisfying the representation invariant (reduced, unique triples, parent sets = live parents), BDDNonTerminalNode(var, low, high) with arbitrary live arguments returns low / the isomorphic live node / a fresh registered node, touches nothing else, and the invariant holds again (raw circuits, ~30-50 unknowns).',
                note='garbage collection enters only through the WeakSet contract (a collected node is absent from every parent set): CPython finalisation order and a collection during find_isomorph\'s iteration are not modelled; native creation/drop/collect histories (25 seeded random ones and ~800 scripted two-route ones) are exploration and are reported as such, a failing history is replayed in a fresh interpreter; canonicity of results of binary operations is decided for all pairs up to 3 variables and for pinned-operand slices at 4',
                tech=SOLVER.replace('an independent oracle circuit', 'truth-table oracle circuits')),
    'C17': dict(cat='model_checking', ref='4/C17',
                text='On the same symbolic runs z3 proves that f&g, f|g, f^g, ~f and f.restrict(v,b) denote the pointwise operation / cofactor on every assignment for every function (pair) of the bound, that every node reachable from a result is reduced and ordered, double negation returns the identical root, and variables() is exactly the support. RuntimeError clauses are examined natively on 6 cases.',
                note='bounded: 2 variables all ops; 3 variables unary ops and binary ops with one literal operand (all pairs in thorough); 4 variables: restrict per variable and binary ops with one pinned operand in quick, ~ and variables() in thorough; two orderings',
                tech=SOLVER.replace('an independent oracle circuit', 'truth-table oracle circuits')),
    'C18': dict(cat='model_checking', ref='4/C18',
                text='Solver part: the real expression parser runs on a SYMBOLIC ast tree (depth<=2 over & | and or ~ not, n-ary and; leaves a b c 0 1 True False and a variable outside the ordering): the operator skeleton is forked (512 runs) and the four leaves are merged, so each run covers 4,096 trees; keyword chains `x1 and ... and xk` (ONE BoolOp with k=3..6 operands, 7 in thorough, every operand an arbitrary leaf) are separate runs; z3 proves RuntimeError is raised exactly when a used leaf is outside the ordering, and otherwise the diagram denotes the expression on all assignments, is well-formed, nothing else raises. Exploration part (natively, enumeration): lambda vs expression notation and keyword synonyms over enumerated texts x 2 argument orders; str() round trip for EVERY function of 3 variables x 6 orderings and 3,000 seeded 4-variable functions; ~1,800 error-propagation expressions; 16 error cases.',
                note='the round-trip, lambda-notation and error clauses are exploration (each native run pins its input), reported separately in evidence; /repo at fix commits 0348f4e, 6cbd413, df24c68',
                tech=SOLVER + ' for the parser; exhaustive native enumeration for printing round trips'),
    'C19': dict(cat='model_checking', ref='4/C19',
                text='On symbolic runs over heterogeneous presentations (states 0/\'1\'/(2,), operator-like state names, label sets polluted with ints, tuples, operator names, \'fair\' and the fresh names the code invents, formula atoms absent from K): z3 proves the result is a set of K\'s states equal to the reference, no exception guard is satisfiable, and a second call after emptying/polluting the first result is unchanged; identity walk shows the result is no object of K.',
                note='bounded: n<=3; presentations are concrete, transitions/labels symbolic; RecursionError examined natively to depth 60 only',
                tech=SOLVER),
}
ALL = ['C%02d' % i for i in range(1, 20)]
NA = {}


def build():
    checks = []
    for pid in ALL:
        if pid not in CHECKS:
            continue
        c = CHECKS[pid]
        checks.append(dict(property_id=pid, quick_cmd='./check %s --tier quick' % pid, thorough_cmd='./check %s --tier thorough' % pid,
                           evidence_file='evidence/%s.json' % pid, replay_cmd_template='./check %s --replay {path}' % pid,
                           engine='see', level_claimed=dict(category=c['cat'], text=c['text'], design_ref='DESIGN.md section ' + c['ref']),
                           level_note=c['note'], technique=c['tech']))
    na = [dict(property_id=p, reason=NA.get(p, 'check not built yet in this commit (planned per DESIGN.md section 4)')) for p in ALL if p not in CHECKS]
    return dict(version=1, setup_cmd='./setup.sh',
                hooks=dict(guard='PYMODELCHECKING_VERIF', enable='none needed: the engine reads /repo sources, it does not instrument them',
                           baseline_off_cmd='cd /repo && /venv/bin/python -m pytest -ra -q -p no:cacheprovider --timeout=900 --continue-on-collection-errors',
                           source_commits=[], add_only=True),
                engines=[dict(name='see', path='verif/see.py', serves_properties=sorted(CHECKS),
                              kind_free_text='guarded symbolic evaluator of the repository\'s Python source with exact-signature functional reduction; circuits decided by z3 (QF_UF over Bool)')],
                checks=checks, not_applicable=na,
                notes='exit 0 = all obligations unsat, twins sat; exit 1 = VIOLATION (replayed natively first); exit 3 = inconclusive (never reported as success)')


if __name__ == '__main__':
    m = build()
    with open(os.path.join(ROOT, 'MANIFEST.json'), 'w') as f:
        json.dump(m, f, indent=1)
    print('MANIFEST.json: %d checks, %d not_applicable' % (len(m['checks']), len(m['not_applicable'])))
