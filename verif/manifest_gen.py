"""Regenerates MANIFEST.json from the table below (keeps it valid at every commit)."""
import json, os, sys
ROOT = os.path.dirname(os.path.dirname(os.path.abspath(__file__)))

SOLVER = 'symbolic execution of the real source (verif.see) + SMT (z3 5.1) equivalence against an independent oracle circuit'
CHECKS = {
    'C12': dict(cat='model_checking', ref='4/C12',
                text='compute_SCCs is executed symbolically from its source on a graph whose edge bits are unknowns: one merged run per node order covers all 2^(n*n) digraphs (n<=4 quick; n=5 with 9 forked bits and all 24 orders at n=4 thorough). The solver proves partition + mutual-reachability equivalence against a Warshall oracle circuit, absence of exceptions and complete loop unrolling; sat models are replayed natively.',
                note='bounded: n<=4 (5 thorough); one global iteration order per run; evaluator and simplifier trusted but audited (rewrite lemmas re-proved, n=2 raw run, translator validation vs native on 150 random graphs)',
                tech=SOLVER),
    'C13': dict(cat='model_checking', ref='4/C13',
                text='get_reachable_set_from, get_reversed_graph (once and twice), get_subgraph and clone run symbolically WITHOUT functional reduction on all digraphs with n<=5 (6 thorough) and all node subsets; solver proves equality with closure / flipped matrix / induced subgraph circuits and that the receiver is unchanged and shares no set object.',
                note='bounded: n<=5/6; all nodes present, subsets may name one non-node; raw circuits decided by z3',
                tech=SOLVER + ' (raw circuits, no simplifier)'),
}
ALL = ['C%02d' % i for i in range(1, 20)]
NA = {}


def build():
    checks = []
    for pid in ALL:
        if pid not in CHECKS:
            continue
        c = CHECKS[pid]
        checks.append(dict(property_id=pid, quick_cmd='./check %s --tier quick' % pid, thorough_cmd='./check %s --tier thorough' % pid,
                           evidence_file='evidence/%s.json' % pid, replay_cmd_template='./check %s --replay {path}' % pid,
                           engine='see', level_claimed=dict(category=c['cat'], text=c['text'], design_ref='DESIGN.md section ' + c['ref']),
                           level_note=c['note'], technique=c['tech']))
    na = [dict(property_id=p, reason=NA.get(p, 'check not built yet in this commit (planned per DESIGN.md section 4)')) for p in ALL if p not in CHECKS]
    return dict(version=1, setup_cmd='./setup.sh',
                hooks=dict(guard='PYMODELCHECKING_VERIF', enable='none needed: the engine reads /repo sources, it does not instrument them',
                           baseline_off_cmd='cd /repo && /venv/bin/python -m pytest -ra -q -p no:cacheprovider --timeout=900 --continue-on-collection-errors',
                           source_commits=[], add_only=True),
                engines=[dict(name='see', path='verif/see.py', serves_properties=sorted(CHECKS),
                              kind_free_text='guarded symbolic evaluator of the repository\'s Python source with exact-signature functional reduction; circuits decided by z3 (QF_UF over Bool)')],
                checks=checks, not_applicable=na,
                notes='exit 0 = all obligations unsat, twins sat; exit 1 = VIOLATION (replayed natively first); exit 3 = inconclusive (never reported as success)')


if __name__ == '__main__':
    m = build()
    with open(os.path.join(ROOT, 'MANIFEST.json'), 'w') as f:
        json.dump(m, f, indent=1)
    print('MANIFEST.json: %d checks, %d not_applicable' % (len(m['checks']), len(m['not_applicable'])))
