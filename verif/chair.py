"""CrossHair (symbolic execution of Python per path, z3 underneath) as a second solver-based engine for the few obligations
whose inputs are *strings* or plain ints, where its str theory is the right tool and the path count is small.

A harness module is generated into a scratch directory on every run (it imports the repository under analysis from REPO), each
condition is a function with a PEP316 pre/post docstring, and `crosshair check --report_all` is run on it.  Outcomes:
  'Confirmed over all paths'  -> the obligation is discharged for every input of the stated precondition
  counterexample              -> replayed natively (the harness function is called with CrossHair's arguments by an ordinary
                                 interpreter); only a reproducing one becomes a VIOLATION
  anything else               -> inconclusive (reported, never counted as a proof)
"""
import os, re, shutil, subprocess, tempfile, time
from .common import ROOT, REPO, write_replay, run_replay

CALL = re.compile(r"(?:false|raises?) .*?when calling (.+?)(?: \(which|$)")


def run(rep, pid, name, src, conds, tier, per_condition=None):
    """src: harness source with %(repo)r placeholder; conds: {function name: description}. Returns number confirmed."""
    ch = os.path.join(ROOT, '.venv', 'bin', 'crosshair')
    if not os.path.exists(ch):
        rep.inconclusive('CrossHair is not installed in the venv (%s)' % name)
        return 0
    d = tempfile.mkdtemp(prefix='verif_ch_')
    path = os.path.join(d, name + '.py')
    text = src % dict(repo=REPO)
    with open(path, 'w') as f:
        f.write(text)
    lines = text.splitlines()
    t0 = time.time()
    try:
        r = subprocess.run([ch, 'check', '--report_all', '--per_condition_timeout', str(per_condition or (30 if tier == 'quick' else 150)), path],
                           capture_output=True, text=True, timeout=1800, env=dict(os.environ, PYTHONHASHSEED='0'))
        out = (r.stdout + r.stderr).strip().splitlines()
    except subprocess.TimeoutExpired:
        out = ['timeout']
    finally:
        shutil.rmtree(d, ignore_errors=True)
    secs = round(time.time() - t0, 1)

    def cond_of(line):
        m = re.match(r'.*?:(\d+):', line)
        if not m:
            return None
        ln = int(m.group(1))
        for k in range(min(ln, len(lines)) - 1, -1, -1):
            mm = re.match(r'def (\w+)\(', lines[k])
            if mm:
                return mm.group(1)
        return None
    status = {}
    for l in out:
        c = cond_of(l)
        if c in conds:
            status.setdefault(c, []).append(l.split(': ', 2)[-1] if ': ' in l else l)
    confirmed = 0
    for c, desc in conds.items():
        msgs = status.get(c, ['no verdict reported'])
        key = 'CrossHair %s: %s' % (c, desc)
        sample = dict(engine='crosshair-tool (z3)', condition=c, verdicts=[m_[-200:] for m_ in msgs[:3]], secs_all_conditions=secs)
        if any('Confirmed over all paths' in m_ for m_ in msgs):
            confirmed += 1
            rep.obligation(key, 'unsat', 0, 1, sample)
            continue
        cex = None
        for m_ in msgs:
            mm = CALL.search(m_)
            if mm:
                cex = mm.group(1)
                break
        if cex:
            body = ('# CrossHair counterexample, replayed by an ordinary interpreter\n' + text.replace('sys.path.insert(0, %r)' % REPO, 'pass') +
                    '\ntry:\n    _r = %s\nexcept Exception as _e:\n    _r = "raised %%s: %%s" %% (type(_e).__name__, _e)\nprint(%r, "->", _r)\n'
                    'if _r is not True:\n    print("VIOLATION of %s: %s")\n    sys.exit(1)\n' % (cex, cex, pid, desc.replace('"', "'")))
            p = write_replay(pid, body)
            ok, o = run_replay(p)
            if ok:
                rep.obligation(key, 'sat', 0, 1, sample)
                rep.violation('%s: %s reproduces natively' % (key, cex), p)
            else:
                rep.obligation(key, 'unknown', 0, 1, sample)
                rep.inconclusive('%s: counterexample %s does not reproduce natively: %s' % (key, cex, o[-200:]))
        else:
            rep.obligation(key, 'unknown', 0, 1, sample)
            rep.inconclusive('%s: %s' % (key, '; '.join(msgs)[-300:]))
    return confirmed
