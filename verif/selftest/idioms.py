"""Idioms a maintainer may use when refactoring pyModelChecking; each function is run natively and through the evaluator
(concrete inputs, and inputs made symbolic where it matters) by tools/selftest_see.py."""
import collections


def aug_set_ops(xs, ys):
    a = set(xs)
    a |= set(ys)
    b = set(xs)
    b &= set(ys)
    c = set(xs)
    c -= set(ys)
    return (sorted(a), sorted(b), sorted(c))


def set_methods(xs, ys):
    a = set(xs)
    u = a.union(ys)
    i = a.intersection(ys)
    d = a.difference(ys)
    a.discard(99)
    a.update(ys)
    sub = set(ys).issubset(a)
    return (sorted(u), sorted(i), sorted(d), sorted(a), sub, a.isdisjoint([1000]))


def set_remove_pop(xs):
    a = set(xs)
    if 1 in a:
        a.remove(1)
    n = len(a)
    b = a.copy()
    b.clear()
    return (sorted(a), n, len(b))


def dict_methods(pairs):
    d = {}
    for k, v in pairs:
        d.setdefault(k, []).append(v)
    keys = sorted(d)
    got = d.get('zz', 'none')
    popped = d.pop(keys[0]) if keys else None
    d.update({'new': [0]})
    items = sorted((k, tuple(v)) for k, v in d.items())
    return (keys, got, popped, items, 'new' in d, len(d))


def list_methods(xs):
    l = list(xs)
    l.insert(0, -1)
    l.extend([7, 8])
    m = l[1:]
    last = l[-1]
    l.reverse()
    l2 = sorted(l, reverse=True)
    idx = l.index(7)
    cnt = l.count(7)
    l.remove(7)
    c = l.copy()
    return (l, m, last, l2, idx, cnt, c, l[:2], l[::2])


def deque_bfs(succ, start):
    seen = {start}
    order = []
    q = collections.deque([start])
    while q:
        v = q.popleft()
        order.append(v)
        for w in sorted(succ.get(v, ())):
            if w not in seen:
                seen.add(w)
                q.append(w)
    return order


def enumerate_zip(xs, ys):
    out = []
    for i, x in enumerate(xs):
        out.append((i, x))
    for a, b in zip(xs, ys):
        out.append(a + b)
    return (out, list(reversed(xs)), [x for x in reversed(ys)])


def any_all_minmax(xs):
    return (any(x > 2 for x in xs), all(x > 0 for x in xs), min(xs), max(xs), max(xs, key=lambda v: -v), sum(x for x in xs if x % 2 == 0), sum(1 for _ in xs))


def fstrings(a, b):
    s = f'{a} and {b!r}'
    t = '{}-{}'.format(a, b) + '%s' % (a,)
    return s + t + str(a) + repr(b)


def cond_expr_and_chain(x, lo, hi):
    return ('in' if lo <= x < hi else 'out', x if x else -1, not x in (1, 2), x not in (1, 2))


def while_else(xs):
    i = 0
    while i < len(xs):
        if xs[i] < 0:
            res = 'neg'
            break
        i += 1
    else:
        res = 'nonneg'
    return res


def try_finally(d, k):
    log = []
    try:
        v = d[k]
    except KeyError:
        v = None
        log.append('missing')
    finally:
        log.append('done')
    return (v, log)


def try_else(d, k):
    try:
        v = d[k]
    except KeyError:
        return 'missing'
    else:
        return ('found', v)


def starred(xs):
    first, *rest = xs
    *init, last = xs
    return (first, rest, init, last)


def nested_helper(xs):
    def helper(v, acc=None):
        acc = acc if acc is not None else []
        acc.append(v * 2)
        return acc
    out = []
    for x in xs:
        out.extend(helper(x))
    return out


def gen_yield_from(xs):
    def inner():
        for x in xs:
            yield x
    def outer():
        yield 'start'
        yield from inner()
        yield 'end'
    return list(outer())


def early_returns(x):
    if x is None:
        return 'none'
    if isinstance(x, (list, tuple)):
        return 'seq%d' % len(x)
    if not x:
        return 'falsy'
    return 'other'


def dict_comp_and_sorted_key(pairs):
    d = {k: v for k, v in pairs if v is not None}
    by_val = sorted(d.items(), key=lambda kv: (kv[1], kv[0]))
    inv = {v: k for k, v in d.items()}
    return (by_val, sorted(inv.items()), list(d.keys()), list(d.values()))


def assert_and_del(xs):
    assert isinstance(xs, list), 'list expected'
    l = list(xs)
    del l[0]
    d = {'a': 1, 'b': 2}
    del d['a']
    return (l, d)


def frozenset_keys(pairs):
    d = {}
    for a, b in pairs:
        d[frozenset((a, b))] = d.get(frozenset((a, b)), 0) + 1
    return sorted((sorted(k), v) for k, v in d.items())


def tuple_swap_and_divmod(a, b):
    a, b = b, a
    q, r = divmod(a, b) if b else (0, 0)
    return (a, b, q, r, a // (b or 1), a % (b or 1), abs(-a), a ** 2)


def string_ops(s):
    return (s.upper(), s.startswith('a'), s.split(','), ','.join(['x', 'y']), s.strip(), s[1:], len(s), s.replace('a', 'b'), 'a' in s)


def sets_of_tuples(edges):
    E = {(a, b) for a, b in edges}
    rev = {(b, a) for (a, b) in E}
    nodes = {a for a, _ in E} | {b for _, b in E}
    return (sorted(E & rev), sorted(nodes), sorted(E ^ rev) if hasattr(E, '__xor__') else None)


def is_none_defaults(x=None, *args, **kwargs):
    if x is None:
        x = []
    return (x, args, sorted(kwargs.items()))


def call_defaults():
    return (is_none_defaults(), is_none_defaults(1, 2, 3), is_none_defaults(x=5, y=6))


def class_with_props():
    class P(object):
        count = 0

        def __init__(self, v):
            self.v = v
            P.count += 1

        @property
        def double(self):
            return self.v * 2

        @staticmethod
        def make(v):
            return P(v)

        @classmethod
        def zero(cls):
            return cls(0)

        def __len__(self):
            return self.v

        def __bool__(self):
            return self.v > 0

        def __iter__(self):
            return iter(range(self.v))

        def __getitem__(self, i):
            return i * self.v

        def __lt__(self, o):
            return self.v < o.v

    a, b, z = P(2), P.make(3), P.zero()
    return (a.double, len(b), bool(z), bool(a), list(b), a[5], a < b, sorted([b, a])[0].v, P.count)


# ---- functions exercised with SYMBOLIC set arguments (subsets of {0,1,2,3}) -------------------------------------------
def sym_union_diff(xs, ys):
    a = set(xs)
    a |= ys
    b = a.difference(ys)
    c = a.intersection(xs)
    c -= {0}
    return (a, b, c, xs.issubset(a), ys.isdisjoint(b))


def sym_discard_remove(xs, ys):
    a = set(xs)
    a.discard(1)
    for y in ys:
        a.discard(y)
    if 2 in a:
        a.remove(2)
    a.update(y + 1 for y in ys if y < 3)
    return (a, len(a), bool(a), any(v > 2 for v in a), all(v > 0 for v in a))


def sym_remove_raises(xs):
    a = set(xs)
    a.remove(3)
    return a


def sym_worklist(xs, ys):
    import collections
    succ = {0: [1], 1: [2], 2: [3], 3: []}
    seen = set(xs)
    q = collections.deque(sorted(xs))
    while q:
        v = q.popleft()
        for w in succ[v]:
            if w not in seen and w not in ys:
                seen.add(w)
                q.append(w)
    return seen


def sym_dict_groups(xs, ys):
    d = {}
    for x in xs:
        d.setdefault(x % 2, set()).add(x)
    for y in ys:
        d.setdefault(y % 2, set()).add(y + 10)
    return (d.get(0, set()), d.get(1, set()), len(d), 0 in d)


def sym_comprehensions(xs, ys):
    pairs = {(x, y) for x in xs for y in ys if x < y}
    firsts = {x for (x, y) in pairs}
    cnt = sum(1 for _ in pairs)
    return (firsts, cnt, min(xs) if xs else -1, max(ys) if ys else -1)


def sym_early_exit(xs, ys):
    for x in sorted(xs):
        if x in ys:
            return x
    else:
        return -1


def sym_try_flow(xs, ys):
    d = {x: x + 1 for x in xs}
    out = set()
    for y in ys:
        try:
            out.add(d[y])
        except KeyError:
            out.add(-y)
        finally:
            out.add(100)
    return out


def sym_iter_stack_dfs(xs, ys):
    # reachability with an explicit stack of iterators and next(it, None) as the exhausted sentinel
    succ = {0: {1, 2}, 1: {3}, 2: set(), 3: {0}}
    seen = set()
    stack = [iter(xs)]
    while stack:
        s = next(stack[-1], None)
        if s is None:
            stack.pop()
            continue
        if s in seen or s in ys:
            continue
        seen.add(s)
        stack.append(iter(succ[s]))
    return seen


def sym_reversed_queue(xs, ys):
    queue = [0]
    met = {0}
    i = 0
    succ = {0: [1, 2], 1: [3], 2: [3], 3: []}
    while i < len(queue):
        v = queue[i]
        i += 1
        for w in succ[v]:
            if w not in met and w in xs:
                met.add(w)
                queue.append(w)
    out = []
    cache = {}
    for v in reversed(queue):
        cache[v] = sum(cache.get(w, 0) for w in succ[v]) + (1 if v in ys else 0)
        out.append(v)
    return (out, cache[0], len(queue))


class _Box(object):
    pass


def sym_getattr_default(xs, ys):
    counter = [0]
    boxes = []
    for x in xs:
        b = _Box()
        if x in ys:
            b.tag = x
            counter[0] += 1
        boxes.append(b)
    tags = [getattr(b, 'tag', -1) for b in boxes]
    return (tags, counter[0], [hasattr(b, 'tag') for b in boxes])


_mode = None
_calls = 0


def _set_mode(m):
    global _mode, _calls
    _calls += 1
    if m is not None:
        _mode = m


def sym_global_state(xs, ys):
    global _mode, _calls
    _mode, _calls = None, 0
    out = []
    for v in (0, 1, 2, 3):
        _set_mode(v if v in xs else None)
        out.append(_mode if v in ys else -1)
    return (out, _calls, _mode)


def sym_operator_reduce(xs, ys):
    import functools, operator
    sets = [xs, ys, {0, 3}]
    u = functools.reduce(operator.or_, sets, set())
    i = functools.reduce(operator.and_, sets)
    return (u, i, functools.reduce(lambda a, b: a + b, [len(xs), len(ys), 1]), operator.not_(xs))


def sym_reduce_guarded(xs, ys):
    import functools, operator
    table = {0: {10}, 1: {11}, 2: {12}}
    try:
        u = functools.reduce(operator.or_, (table[x] for x in sorted(xs)), set())
    except KeyError:
        u = {-1}
    s = functools.reduce(lambda a, b: a + b, (y for y in ys), 0)
    return (u, s)


def sym_genexp_raise(xs, ys):
    table = {0: {10}, 1: {11}, 2: {12}}
    try:
        u = set()
        for t in (table[x] for x in sorted(xs)):
            u |= t
    except KeyError:
        u = {-1}
    try:
        w = [table[x] for x in sorted(ys)]
        k = len(w)
    except KeyError:
        k = -1
    return (u, k)


def sym_first_free_name(xs, ys):
    from itertools import chain, count
    taken = {'n%d' % x for x in xs} | ({'n'} if 0 in ys else set())
    candidates = chain(['n'], ('n%d' % i for i in count()))
    first = next(c for c in candidates if c not in taken)
    g = (y for y in sorted(ys))
    a = next(g, -1)
    b = next(g, -2)
    return (first, a, b)
