"""Reference semantics, written for the verifier only (none of this calls the code under test).

All functions work on *guards* (verif.see Boolean DAG nodes or Python bools), so the same code yields a
circuit over symbolic structures and a plain answer on concrete ones.
  closure       reflexive-transitive closure by Warshall rounds
  ctl           CTL semantics: per formula a vector of n guards, every fixpoint by n unrollings of its own recursion
  ctls          CTL* / LTL semantics: product with assignments to the elementary formulas + Emerson-Lei
  fair_states   states with a fair path
  lasso_eval    LTL on an ultimately periodic word
"""
import itertools
from .see import b_and, b_or, b_not, b_xor, b_iff, is_c


def nm(f):
    return type(f).__name__


def closure(e, n):
    r = [[(True if i == j else e[i][j]) for j in range(n)] for i in range(n)]
    for k in range(n):
        r = [[b_or(r[i][j], b_and(r[i][k], r[k][j])) for j in range(n)] for i in range(n)]
    return r


def closure_plus(e, n):
    """transitive (>= 1 step) closure"""
    r = closure(e, n)
    return [[b_or(*[b_and(e[i][m], r[m][j]) for m in range(n)]) for j in range(n)] for i in range(n)]


# ------------------------------------------------------------------ CTL
def ctl(f, T, lab, n):
    """vector of guards: state i satisfies the CTL state formula f (total T assumed).
    A-operators have their own fixpoints (not defined through E-duals)."""
    k = nm(f)
    sub = f.subformulas()
    EX = lambda Z: [b_or(*[b_and(T[i][j], Z[j]) for j in range(n)]) for i in range(n)]
    AX = lambda Z: [b_and(*[b_or(b_not(T[i][j]), Z[j]) for j in range(n)]) for i in range(n)]

    def fix(init, step):
        Z = init
        for _ in range(n):
            Z = step(Z)
        return Z
    if k == 'Bool':
        return [bool(f._value)] * n
    if k == 'AtomicProposition':
        return list(lab.get(f.name, [False] * n))
    if k == 'Not':
        return [b_not(x) for x in ctl(sub[0], T, lab, n)]
    if k == 'Or':
        return [b_or(*xs) for xs in zip(*[ctl(s, T, lab, n) for s in sub])]
    if k == 'And':
        return [b_and(*xs) for xs in zip(*[ctl(s, T, lab, n) for s in sub])]
    if k == 'Imply':
        a, b = ctl(sub[0], T, lab, n), ctl(sub[1], T, lab, n)
        return [b_or(b_not(x), y) for x, y in zip(a, b)]
    if k not in ('A', 'E'):
        raise TypeError('not a CTL state formula: %s' % (f,))
    p = sub[0]
    pn = nm(p)
    N = AX if k == 'A' else EX
    a = ctl(p.subformulas()[0], T, lab, n)
    if pn == 'X':
        return N(a)
    if pn == 'F':
        return fix(a, lambda Z: [b_or(x, y) for x, y in zip(a, N(Z))])
    if pn == 'G':
        return fix(a, lambda Z: [b_and(x, y) for x, y in zip(a, N(Z))])
    b = ctl(p.subformulas()[1], T, lab, n)
    if pn == 'U':
        return fix(b, lambda Z: [b_or(y, b_and(x, z)) for x, y, z in zip(a, b, N(Z))])
    if pn == 'R':
        return fix(b, lambda Z: [b_and(y, b_or(x, z)) for x, y, z in zip(a, b, N(Z))])
    raise TypeError('not a CTL formula: %s' % (f,))


# ------------------------------------------------------------------ CTL* (and LTL)
class Depths:
    """unrolling policy for the fixpoints of the product construction.
    mode 'stable': iterate until the vector of canonical representatives repeats (needs functional reduction on);
                   records the iteration counts.
    mode 'fixed' : iterate a given number of times; the guard `unstable` collects (last iterate != one more iterate)
                   for every fixpoint instance, to be proved unsat by the solver."""

    def __init__(self, mode='stable', inner=None, outer=None):
        self.mode, self.inner, self.outer = mode, inner, outer
        self.max_inner = 0
        self.max_outer = 0
        self.unstable = False


def _norm(h, n, state_vec):
    """formula object -> tuple tree over ('st', vector) / not / or / X / U; maximal state subformulas are
    evaluated through state_vec(h)"""
    k = nm(h)
    sub = h.subformulas()
    TRUE = ('st', tuple([True] * n))
    if k in ('Bool', 'AtomicProposition', 'A', 'E'):
        return ('st', tuple(state_vec(h)))
    rec = lambda x: _norm(x, n, state_vec)
    if k == 'Not':
        return ('not', rec(sub[0]))
    if k == 'Or':
        r = rec(sub[0])
        for x in sub[1:]:
            r = ('or', r, rec(x))
        return r
    if k == 'And':
        r = rec(sub[0])
        for x in sub[1:]:
            r = ('not', ('or', ('not', r), ('not', rec(x))))
        return r
    if k == 'Imply':
        return ('or', ('not', rec(sub[0])), rec(sub[1]))
    if k == 'X':
        return ('X', rec(sub[0]))
    if k == 'F':
        return ('U', TRUE, rec(sub[0]))
    if k == 'G':
        return ('not', ('U', TRUE, ('not', rec(sub[0]))))
    if k == 'U':
        return ('U', rec(sub[0]), rec(sub[1]))
    if k == 'R':
        return ('not', ('U', ('not', rec(sub[0])), ('not', rec(sub[1]))))
    raise TypeError('not a CTL* formula: %r' % (h,))


def e_path(t, T, n, fair=(), depths=None):
    """vector: state s starts a (fair) path satisfying the path-formula tree t.
    fair: list of vectors (state in the fairness set)."""
    depths = depths or Depths()
    el = []

    def collect(t):
        if t[0] == 'st':
            return
        if t[0] == 'X' and t not in el:
            el.append(t)
        if t[0] == 'U' and ('X', t) not in el:
            el.append(('X', t))
        for c in t[1:]:
            collect(c)
    collect(t)
    us = []

    def collect_u(t):
        if t[0] == 'st':
            return
        if t[0] == 'U' and t not in us:
            us.append(t)
        for c in t[1:]:
            collect_u(c)
    collect_u(t)
    asg = list(itertools.product([False, True], repeat=len(el)))
    nodes = [(s, a) for s in range(n) for a in range(len(asg))]
    memo = {}

    def sat(t, s, a):
        key = (id(t), s, a)
        if key in memo:
            return memo[key]
        if t[0] == 'st':
            r = t[1][s]
        elif t[0] == 'not':
            r = b_not(sat(t[1], s, a))
        elif t[0] == 'or':
            r = b_or(sat(t[1], s, a), sat(t[2], s, a))
        elif t[0] == 'X':
            r = asg[a][el.index(t)]
        else:
            r = b_or(sat(t[2], s, a), b_and(sat(t[1], s, a), asg[a][el.index(('X', t))]))
        memo[key] = r
        return r
    N = len(nodes)
    edge = {}
    for (s, a) in nodes:
        for (s2, a2) in nodes:
            g = T[s][s2]
            for i, e in enumerate(el):
                if g is False:
                    break
                v = sat(e[1], s2, a2)
                g = b_and(g, v if asg[a][i] else b_not(v))
            edge[(s, a), (s2, a2)] = g
    fsets = [{v: b_or(b_not(sat(u, *v)), sat(u[2], *v)) for v in nodes} for u in us]
    for fv in fair:
        fsets.append({v: fv[v[0]] for v in nodes})

    def pre(X):
        return {v: b_or(*[b_and(edge[v, w], X[w]) for w in nodes]) for v in nodes}

    def same(A, B):
        return all(A[v] is B[v] for v in nodes)

    def diff(A, B):
        return b_or(*[b_xor(A[v], B[v]) for v in nodes])

    def EU(A, B):
        R = dict(B)
        it = 0
        while True:
            P = pre(R)
            Nn = {v: b_or(R[v], b_and(A[v], P[v])) for v in nodes}
            if depths.mode == 'stable':
                if same(Nn, R):
                    depths.max_inner = max(depths.max_inner, it)
                    return R
            elif it >= depths.inner:
                depths.unstable = b_or(depths.unstable, diff(Nn, R))
                return R
            R = Nn
            it += 1
    Z = {v: True for v in nodes}
    outer = 0
    while True:
        Nz = dict(Z)
        if not fsets:
            P = pre(Z)
            Nz = {v: b_and(Nz[v], P[v]) for v in nodes}
        for f in fsets:
            P = pre(EU(Z, {v: b_and(Z[v], f[v]) for v in nodes}))
            Nz = {v: b_and(Nz[v], P[v]) for v in nodes}
        if depths.mode == 'stable':
            if same(Nz, Z):
                depths.max_outer = max(depths.max_outer, outer)
                break
        elif outer >= depths.outer:
            depths.unstable = b_or(depths.unstable, diff(Nz, Z))
            break
        Z = Nz
        outer += 1
    good = EU({v: True for v in nodes}, Z)
    res = [b_or(*[b_and(good[(s, a)], sat(t, s, a)) for a in range(len(asg))]) for s in range(n)]
    return res, dict(nodes=N, el=len(el), us=len(us))


def fair_states(T, n, fair, depths=None):
    return e_path(('st', tuple([True] * n)), T, n, fair, depths)[0]


def ctls(f, T, lab, n, fair=None, depths=None, stats=None):
    """vector: state s satisfies the CTL* state formula f; with fair (list of vectors) the quantifiers range over
    fair paths and an atom p means 'p and a fair path starts here' (Clarke-Grumberg-Peled)."""
    fs = list(fair) if fair is not None else []
    fairv = fair_states(T, n, fs, depths) if fair is not None else None

    def st(h):
        k = nm(h)
        sub = h.subformulas()
        if k == 'Bool':
            return [bool(h._value)] * n
        if k == 'AtomicProposition':
            v = list(lab.get(h.name, [False] * n))
            return v if fairv is None else [b_and(x, y) for x, y in zip(v, fairv)]
        if k == 'Not':
            return [b_not(x) for x in st(sub[0])]
        if k == 'Or':
            return [b_or(*xs) for xs in zip(*[st(s) for s in sub])]
        if k == 'And':
            return [b_and(*xs) for xs in zip(*[st(s) for s in sub])]
        if k == 'Imply':
            return [b_or(b_not(x), y) for x, y in zip(st(sub[0]), st(sub[1]))]
        if k == 'E':
            r, s_ = e_path(_norm(sub[0], n, st), T, n, fs, depths)
            if stats is not None:
                stats.append(s_)
            return r
        if k == 'A':
            r, s_ = e_path(('not', _norm(sub[0], n, st)), T, n, fs, depths)
            if stats is not None:
                stats.append(s_)
            return [b_not(x) for x in r]
        raise TypeError('not a CTL* state formula: %r' % (h,))
    return st(f)


# ------------------------------------------------------------------ lassos
def lasso_eval(h, k, l, val):
    """truth at every position 0..k-1 of the ultimately periodic word  w_0 .. w_{k-1} (w_l .. w_{k-1})^omega
    val(name, i) -> guard/bool.  Returns list of k guards.  h: formula object (path formula, no quantifiers)."""
    kind = nm(h)
    sub = h.subformulas()
    succ = lambda i: i + 1 if i + 1 < k else l
    rec = lambda x: lasso_eval(x, k, l, val)
    if kind == 'Bool':
        return [bool(h._value)] * k
    if kind == 'AtomicProposition':
        return [val(h.name, i) for i in range(k)]
    if kind == 'Not':
        return [b_not(x) for x in rec(sub[0])]
    if kind == 'Or':
        return [b_or(*xs) for xs in zip(*[rec(s) for s in sub])]
    if kind == 'And':
        return [b_and(*xs) for xs in zip(*[rec(s) for s in sub])]
    if kind == 'Imply':
        return [b_or(b_not(x), y) for x, y in zip(rec(sub[0]), rec(sub[1]))]
    if kind == 'X':
        a = rec(sub[0])
        return [a[succ(i)] for i in range(k)]
    if kind in ('F', 'G', 'U', 'R'):
        if kind == 'F':
            a, b = [True] * k, rec(sub[0])
        elif kind == 'G':
            a, b = [True] * k, [b_not(x) for x in rec(sub[0])]
        elif kind == 'U':
            a, b = rec(sub[0]), rec(sub[1])
        else:
            a, b = [b_not(x) for x in rec(sub[0])], [b_not(x) for x in rec(sub[1])]
        # least fixpoint of Z = b or (a and Z o succ): k+1 rounds suffice on k positions
        Z = list(b)
        for _ in range(k + 1):
            Z = [b_or(b[i], b_and(a[i], Z[succ(i)])) for i in range(k)]
        if kind in ('G', 'R'):
            Z = [b_not(x) for x in Z]
        return Z
    raise TypeError('not an LTL path formula: %r' % (h,))
