"""C05: get_equivalent_restricted_formula / LNot preserve meaning.  The rewriters run natively on each enumerated
formula; input and output are both given to the ORACLES over symbolic models and the solver looks for a
distinguishing model (all total Kripke structures with n states; all (k,l)-lassos up to k positions)."""
import time, importlib
from . import see, oracles
from .see import var, b_and, b_or, b_not, b_xor, is_c
from .harness import matrix, labels, total_text, total_of, tnames, lnames
from .decide import Decider
from .smt import SmtProc
from .common import write_replay, run_replay

ALLOWED = {'CTL': {'Not', 'Or', 'E', 'X', 'U', 'G', 'Bool', 'AtomicProposition'},
           'LTL': {'Not', 'Or', 'X', 'U', 'Bool', 'AtomicProposition'},
           'CTLS': {'Not', 'Or', 'E', 'X', 'U', 'Bool', 'AtomicProposition'}}


def walk(f):
    yield f
    for s in f.subformulas():
        yield from walk(s)


def alphabet_problems(logic, g, top=True):
    """syntactic check of a restricted-form formula"""
    bad = []
    for x in walk(g):
        k = type(x).__name__
        if k not in ALLOWED[logic]:
            bad.append('operator %s in the restricted form' % k)
        if logic == 'CTL' and k == 'E' and type(x.subformula(0)).__name__ not in ('X', 'U', 'G'):
            bad.append('E followed by %s' % type(x.subformula(0)).__name__)
        if logic == 'CTL' and k in ('X', 'U', 'G'):
            pass
        if logic != 'CTL' and k == 'G':
            bad.append('G outside CTL')
        if type(x).__module__ != type(g).__module__:
            bad.append('node %s of another language (%s)' % (k, type(x).__module__))
    return bad


def double_neg(h):
    return type(h).__name__ == 'Not' and type(h.subformula(0)).__name__ == 'Not'


def is_state(logic, f):
    return any(type(x).__name__ in ('A', 'E') for x in [f]) or logic == 'CTL' or not any(type(x).__name__ in ('X', 'F', 'G', 'U', 'R') for x in walk_top(f))


def walk_top(f):
    """nodes not below a path quantifier"""
    yield f
    if type(f).__name__ in ('A', 'E'):
        return
    for s in f.subformulas():
        yield from walk_top(s)


def has_quantifier(f):
    return any(type(x).__name__ in ('A', 'E') for x in walk(f))


def state_equiv(f, g, n, aps):
    """solver: some total structure with n states where state formulas f and g differ? -> (verdict, model, stats)"""
    see.reset()
    names = tnames(n) + lnames(n, aps)
    see.enable_tt(names)
    see.restrict_care(total_of(matrix(n), n))
    dp0 = oracles.Depths('stable')
    T, lab = matrix(n), labels(n, aps)
    oracles.ctls(f, T, lab, n, depths=dp0)
    oracles.ctls(g, T, lab, n, depths=dp0)
    d = Decider(total_text(n), timeout_ms=300000)
    T2, lab2 = matrix(n), labels(n, aps)
    dp = oracles.Depths('fixed', inner=dp0.max_inner, outer=dp0.max_outer)
    a = oracles.ctls(f, T2, lab2, n, depths=dp)
    b = oracles.ctls(g, T2, lab2, n, depths=dp)
    r = d.differ(a, b, [dp.unstable])
    m = d.differ_model(a, b, [dp.unstable]) if r == 'sat' else None
    st = d.stats()
    d.close()
    return r, m, st


def path_equiv(f, g, kmax, aps):
    """solver: some (k,l)-lasso, k<=kmax, where path formulas f and g differ at position 0? -> (verdict, witness, queries, secs)"""
    q, t = 0, 0.0
    for k in range(1, kmax + 1):
        for l in range(k):
            see.reset()
            val = lambda name, i: var('w_%s_%d' % (name, i)) if name in aps else False
            a = oracles.lasso_eval(f, k, l, val)[0]
            b = oracles.lasso_eval(g, k, l, val)[0]
            x = b_xor(a, b)
            q += 1
            if x is False:
                continue
            smt = SmtProc(timeout_ms=120000)
            r = 'sat' if x is True else smt.check(x)
            t += smt.t_solve
            if r != 'unsat':
                m = smt.values() if r == 'sat' and x is not True else {}
                smt.close()
                return r, dict(k=k, loop_to=l, word=[[a_ for a_ in aps if m.get('w_%s_%d' % (a_, i))] for i in range(k)]), q, t
            smt.close()
    return 'unsat', None, q, t


def rewrite_task(logic, ftxts, n=3, kmax=5, aps=('p', 'q', 'r')):
    mod = importlib.import_module('pyModelChecking.' + logic)
    from pyModelChecking.language import LNot
    P = mod.Parser()
    out = []
    for ftxt in ftxts:
        t0 = time.time()
        rec = dict(logic=logic, formula=ftxt, problems=[], checks={})
        try:
            f = P(ftxt)
            f0 = str(f)
            g = f.get_equivalent_restricted_formula()
            h = LNot(f)
            rec['restricted'] = str(g)
            rec['problems'] += alphabet_problems(logic, g)
            if double_neg(h) or double_neg(g) and False:
                rec['problems'].append('LNot result begins with two negations: %s' % h)
            if str(f) != f0:
                rec['problems'].append('rewriting changed the input formula')
            negf = mod.Not(f)
            queries, solver_s = 0, 0.0
            statey = (logic == 'CTL') or (type(f).__name__ in ('A', 'E')) or all(type(x).__name__ not in ('X', 'F', 'G', 'U', 'R') for x in walk_top(f))
            if statey:
                if logic == 'CTL' and type(f).__name__ in ('X', 'F', 'G', 'U', 'R'):
                    rec['checks']['skipped'] = 'bare CTL path formula'
                else:
                    for nm_, a, b in (('restricted', f, g), ('LNot', negf, h)):
                        r, m, st = state_equiv(a, b, n, aps[:2])
                        rec['checks'][nm_ + ' over structures'] = r
                        queries += st['queries']
                        solver_s += st['solver_s']
                        if r == 'sat':
                            rec.setdefault('models', {})[nm_] = m
            if not has_quantifier(f):
                for nm_, a, b in (('restricted', f, g), ('LNot', negf, h)):
                    r, w, q, t = path_equiv(a, b, kmax, aps)
                    rec['checks'][nm_ + ' over lassos'] = r
                    queries += q
                    solver_s += t
                    if r == 'sat':
                        rec.setdefault('lassos', {})[nm_] = w
            rec.update(queries=queries, solver_s=round(solver_s, 3), secs=round(time.time() - t0, 2))
        except Exception as e:
            rec['error'] = '%s: %s' % (type(e).__name__, e)
        out.append(rec)
    return out


C05_REPLAY = '''
sys.path.insert(0, %(root)r)
import importlib
from pyModelChecking import CTLS
from pyModelChecking.language import LNot
from verif import explicit, oracles
logic, ftxt, which = %(logic)r, %(ftxt)r, %(which)r
mod = importlib.import_module('pyModelChecking.' + logic)
f = mod.Parser()(ftxt)
a, b = (f, f.get_equivalent_restricted_formula()) if which == 'restricted' else (mod.Not(f), LNot(f))
print('formula', a, ' rewritten', b)
bad = []
structure = %(structure)r
lasso = %(lasso)r
if structure:
    n, R, L = structure
    K = explicit.Struct(n, R, L)
    sa, sb = explicit.sat_states(K, a), explicit.sat_states(K, b)
    print('on R=%%s L=%%s: %%s vs %%s' %% (R, L, sa, sb))
    if sa != sb: bad.append('different satisfying states')
if lasso:
    word, l = lasso['word'], lasso['loop_to']
    val = lambda name, i: name in word[i]
    va, vb = oracles.lasso_eval(a, len(word), l, val)[0], oracles.lasso_eval(b, len(word), l, val)[0]
    print('on lasso %%s loop to %%d: %%s vs %%s' %% (word, l, va, vb))
    if va != vb: bad.append('different truth on the lasso')
if bad:
    print('VIOLATION of C05:', bad); sys.exit(1)
print('no violation on this input')
'''


def c05_replay(rec, which, kind):
    from .common import ROOT
    from .harness import model_to_structure
    structure = lasso = None
    if kind == 'structure':
        R, L = model_to_structure(rec['models'][which], 3, ('p', 'q'))
        structure = (3, R, L)
    else:
        lasso = rec['lassos'][which]
    path = write_replay('C05', C05_REPLAY % dict(root=ROOT, logic=rec['logic'], ftxt=rec['formula'], which=which, structure=structure, lasso=lasso))
    ok, out = run_replay(path)
    return (path if ok else None), out
