"""C08 solver part: the real constructors define a local (parent/children-top-operator) acceptance
table; extracted by running them; compared by SAT with the documented grammar on ALL operator
trees up to depth d."""
import sys, time, itertools, importlib
from . import see
from .see import var, b_and, b_or, b_not, b_ite, b_xor, is_c
from .smt import SmtProc

UN = ['Not', 'X', 'F', 'G', 'A', 'E']; BI = ['And', 'Or', 'Imply', 'U', 'R']; LEAF = ['Bool', 'AtomicProposition']

def reps_and_table(M):
    ops = [o for o in UN + BI if o in M.alphabet]
    rep = {'Bool': M.Bool(True), 'AtomicProposition': M.AtomicProposition('p')}
    allowed = {}
    changed = True
    while changed:
        changed = False
        for op in ops:
            ar = 1 if op in UN else 2
            for kids in itertools.product(list(rep), repeat=ar):
                if (op,) + kids in allowed: continue
                try:
                    f = getattr(M, op)(*[rep[k] for k in kids])
                    allowed[(op,) + kids] = True
                    if op not in rep:
                        rep[op] = f; changed = True
                except TypeError:
                    allowed[(op,) + kids] = False
    # ops never constructible with any children
    return ops, rep, allowed

def doc_kind(logic):
    """documented grammar as bottom-up kinds: 'S' state, 'P' path (not state), None = not a formula"""
    def k(op, kids):
        if op in LEAF: return 'S'
        if logic == 'PL':
            return 'S' if op in ('Not', 'And', 'Or', 'Imply') and all(x == 'S' for x in kids) else None
        if logic == 'CTL':
            if op in ('Not', 'And', 'Or', 'Imply'): return 'S' if all(x == 'S' for x in kids) else None
            if op in ('A', 'E'): return 'S' if kids[0] == 'P' else None
            return 'P' if all(x == 'S' for x in kids) else None
        if logic == 'LTL':
            # 'P' = LTL path formula (no quantifier inside), 'S' here = A rho (only at root)
            if op == 'E': return None
            if op == 'A': return 'Q' if kids[0] in ('S', 'P') else None
            return 'P' if all(x in ('S', 'P') for x in kids) else None
        if logic == 'CTLS':
            if any(x is None for x in kids): return None
            if op in ('A', 'E'): return 'S'
            if op in ('Not', 'And', 'Or', 'Imply'): return 'S' if all(x == 'S' for x in kids) else 'P'
            return 'P'
    return k



ALLOPS = UN + BI


def tree_task(logic, depth):
    """all operator trees (union alphabet, arity-respecting) up to `depth`: buildable with <logic>'s constructors / castable into
    <logic>  <=>  the tree is a formula of <logic> per the documented grammar"""
    M = importlib.import_module('pyModelChecking.' + logic)
    see.reset()
    t0 = time.time()
    ops, rep, allowed = reps_and_table(M)
    syms = LEAF + ALLOPS                 # operators missing from the language's alphabet can never be built / cast
    npos = (1 << (depth + 1)) - 1
    sel = [[var('n%d_%s' % (i, s)) for s in syms] for i in range(npos)]
    wf = []
    for i in range(npos):
        wf.append(b_or(*sel[i]))
        wf += [b_not(b_and(a, b)) for a, b in itertools.combinations(sel[i], 2)]
        if 2 * i + 1 >= npos:
            wf.append(b_or(*[sel[i][syms.index(l)] for l in LEAF]))
    kd = doc_kind(logic)
    kinds = ['S', 'P', 'Q', None]
    impl = [None] * npos
    dk = [None] * npos
    for i in reversed(range(npos)):
        l, r = 2 * i + 1, 2 * i + 2
        ok = False
        kvec = {k: False for k in kinds}
        for si, s in enumerate(syms):
            g = sel[i][si]
            if s in LEAF:
                ok = b_or(ok, g)
                kvec['S'] = b_or(kvec['S'], g)
                continue
            if l >= npos:
                continue
            ar = 1 if s in UN else 2
            kidpos = [l] if ar == 1 else [l, r]
            loc = False
            if s in ops:
                for kidsyms in itertools.product(range(len(syms)), repeat=ar):
                    key = (s,) + tuple(syms[x] for x in kidsyms)
                    if allowed.get(key):
                        loc = b_or(loc, b_and(*[sel[p][x] for p, x in zip(kidpos, kidsyms)]))
            ok = b_or(ok, b_and(g, loc, *[impl[p] for p in kidpos]))
            for kk in itertools.product(kinds, repeat=ar):
                res = kd(s, list(kk)) if s in ops else None
                cond = b_and(g, *[dk[p][x] for p, x in zip(kidpos, kk)])
                kvec[res] = b_or(kvec[res], cond)
        impl[i] = ok
        dk[i] = kvec
    doc_ok = b_not(dk[0][None])
    smt = SmtProc(timeout_ms=600000)
    wfg = b_and(*wf)
    r = smt.check(wfg, b_xor(impl[0], doc_ok))
    rec = dict(logic=logic, depth=depth, positions=npos, table_entries=len(allowed), table_allowed=sum(allowed.values()), verdict=r,
               encode_s=round(time.time() - t0, 2))
    if r == 'sat':
        vals = smt.values()

        def show(i):
            s = [x for x in syms if vals.get('n%d_%s' % (i, x))][0]
            if s in LEAF:
                return 'p' if s == 'AtomicProposition' else 'true'
            if s in UN:
                return '%s(%s)' % (s, show(2 * i + 1))
            return '%s(%s, %s)' % (s, show(2 * i + 1), show(2 * i + 2))
        rec['witness'] = show(0)
        rec['witness_constructible_per_table'] = None
    rec['twin'] = smt.check(wfg, impl[0], b_not(b_or(*[sel[0][syms.index(l)] for l in LEAF])))
    rec['twin2'] = smt.check(wfg, b_not(impl[0]))
    rec.update(queries=smt.queries, solver_s=round(smt.t_solve, 2), gates=smt.nodes)
    smt.close()
    return rec


# ------------------------------------------------------------------ native exploration (validates locality; casts; modelcheck guards)
def doc_member(logic, tree):
    """documented-grammar kind of a tree given as nested tuples (op, kids...) / ('Bool',) / ('AtomicProposition',)"""
    kd = doc_kind(logic)

    def rec(t):
        if t[0] in LEAF:
            return 'S'
        ks = [rec(c) for c in t[1:]]
        M = importlib.import_module('pyModelChecking.' + logic)
        if t[0] not in M.alphabet:
            return None
        return kd(t[0], ks)
    return rec(tree)


def shape(f):
    n = type(f).__name__
    if n == 'Bool':
        return ('Bool', bool(f._value))
    if n == 'AtomicProposition':
        return ('AtomicProposition', f.name)
    return (n,) + tuple(shape(s) for s in f.subformulas())


def plain(t):
    return (t[0],) if t[0] in LEAF else (t[0],) + tuple(plain(c) for c in t[1:])


def build_native(M, t):
    if t[0] == 'Bool':
        return M.Bool(t[1])
    if t[0] == 'AtomicProposition':
        return M.AtomicProposition(t[1])
    return getattr(M, t[0])(*[build_native(M, c) for c in t[1:]])


def native_explore(logic, depth2_sample, seed=0):
    """constructs every arity-respecting tree of depth <=1 over the union alphabet and a large part of depth 2 with <logic>'s
    constructors; outcome must be exactly (formula iff documented) / TypeError; casts every success into the 4 languages"""
    import random
    M = importlib.import_module('pyModelChecking.' + logic)
    rng_ = random.Random(seed)
    leaves = [('Bool', True), ('Bool', False), ('AtomicProposition', 'p'), ('AtomicProposition', 'q')]
    l1 = [(op, a) for op in UN for a in leaves] + [(op, a, b) for op in BI for a in leaves for b in leaves]
    pool = leaves + l1
    l2 = [(op, a) for op in UN for a in l1] + [(op, a, b) for op in BI for a in rng_.sample(l1, min(len(l1), depth2_sample)) for b in rng_.sample(pool, min(len(pool), depth2_sample))]
    # depth 3 and 4: every unary chain over every depth-1 tree, and binary operators with one depth-2 operand (seeded sample)
    l2u = [(op, a) for op in UN for a in l1]
    l3 = [(op, a) for op in UN for a in l2u] + [(op, a, b) for op in BI for a in rng_.sample(l2u, 40) for b in leaves[2:]] + \
         [(op, b, a) for op in BI for a in rng_.sample(l2u, 40) for b in leaves[2:]]
    l4 = [(op, a) for op in UN for a in rng_.sample(l3, 400)]
    deep = set(map(id, l3)) | set(map(id, l4))
    stats = dict(trees=0, built=0, rejected=0, casts=0, problems=[])
    for t in leaves + l1 + l2 + l3 + l4:
        stats['trees'] += 1
        want = doc_member(logic, plain(t))
        try:
            if any(op not in M.alphabet for op in _ops(t)):
                raise TypeError('operator outside the alphabet')
            f = build_native(M, t)
            got = True
        except TypeError:
            got = False
        except Exception as e:
            stats['problems'].append(('constructor raised %s' % type(e).__name__, t))
            continue
        if got != (want is not None):
            stats['problems'].append(('constructed=%s but documented kind=%s' % (got, want), t))
            continue
        if not got:
            stats['rejected'] += 1
            continue
        stats['built'] += 1
        if shape(f) != t or any(type(x).__module__ != 'pyModelChecking.%s.language' % logic for x in _nodes(f)):
            stats['problems'].append(('built object has another shape/module', t))
        if stats['built'] % 7 == 0 or len(t) == 2 or id(t) in deep:
            for tgt in ('PL', 'CTL', 'LTL', 'CTLS'):
                T = importlib.import_module('pyModelChecking.' + tgt)
                wantc = doc_member(tgt, plain(t))
                stats['casts'] += 1
                try:
                    g = f.cast_to(T)
                    okc = True
                except TypeError:
                    okc = False
                except Exception as e:
                    stats['problems'].append(('cast_to(%s) raised %s' % (tgt, type(e).__name__), t))
                    continue
                if okc != (wantc is not None):
                    stats['problems'].append(('cast_to(%s) succeeded=%s but documented kind=%s' % (tgt, okc, wantc), t))
                elif okc and (shape(g) != t or any(type(x).__module__ != 'pyModelChecking.%s.language' % tgt for x in _nodes(g))):
                    stats['problems'].append(('cast_to(%s) changed the structure or left nodes of another language' % tgt, t))
    return stats


RAW = {('Bool', True): True, ('Bool', False): False, ('AtomicProposition', 'p'): 'p', ('AtomicProposition', 'q'): 'q'}


def build_mixed(M, t, raw):
    """like build_native, but leaves are passed as raw Python str / bool when `raw` (the constructors wrap them themselves)"""
    if t[0] in LEAF:
        return RAW[t] if raw else build_native(M, t)
    return getattr(M, t[0])(*[build_mixed(M, c, raw) for c in t[1:]])


def native_cross(logic, skip_d15=True):
    """operands built in ANOTHER language (depth 1, leaves given as objects or as raw str/bool) handed to <logic>'s constructors,
    and raw str/bool leaves handed directly: the outcome must again be exactly formula-iff-documented / TypeError"""
    M = importlib.import_module('pyModelChecking.' + logic)
    leaves = [('Bool', True), ('AtomicProposition', 'p'), ('AtomicProposition', 'q')]
    l1 = [(op, a) for op in UN for a in leaves] + [(op, a, b) for op in BI for a in leaves for b in leaves[:2]]
    stats = dict(cases=0, built=0, rejected=0, problems=[])

    def judge(t, mk):
        stats['cases'] += 1
        want = doc_member(logic, plain(t))
        try:
            f = mk()
            got = True
        except TypeError:
            got = False
        except Exception as e:
            stats['problems'].append(('constructor raised %s' % type(e).__name__, t))
            return
        if got != (want is not None):
            stats['problems'].append(('constructed=%s but documented kind=%s' % (got, want), t))
        elif got:
            stats['built'] += 1
            # (an operand of a sub-language is an instance of this language's classes and is legitimately kept as it is,
            #  so node modules are not compared here; shape and documented membership are)
            if shape(f) != t:
                stats['problems'].append(('built object has another shape: %s' % (f,), t))
        else:
            stats['rejected'] += 1
    # raw leaves, same language, depth <= 2
    for t1 in l1:
        if all(o in M.alphabet for o in _ops(t1)):
            judge(t1, lambda t1=t1: build_mixed(M, t1, True))
        for op in UN:
            t2 = (op, t1)
            if all(o in M.alphabet for o in _ops(t2)):
                judge(t2, lambda t2=t2: build_mixed(M, t2, True))
    # foreign operands
    for other in ('PL', 'CTL', 'LTL', 'CTLS'):
        if other == logic:
            continue
        O = importlib.import_module('pyModelChecking.' + other)
        for raw in (False, True):
            for t1 in l1:
                if not all(o in O.alphabet for o in _ops(t1)):
                    continue
                try:
                    child = build_mixed(O, t1, raw)
                except TypeError:
                    continue
                if logic == 'PL' and skip_d15 and doc_member('PL', plain(t1)) is None:
                    stats['skipped_known_finding_D15'] = stats.get('skipped_known_finding_D15', 0) + 1
                    continue          # known finding D15: PL operators keep temporal operands as they are
                for op in [o for o in UN if o in M.alphabet]:
                    judge((op, t1), lambda op=op, child=child: getattr(M, op)(child))
                for op in [o for o in BI if o in M.alphabet]:
                    judge((op, t1, leaves[1]), lambda op=op, child=child: getattr(M, op)(child, 'p' if raw else M.AtomicProposition('p')))
                    judge((op, leaves[2], t1), lambda op=op, child=child: getattr(M, op)(M.AtomicProposition('q'), child))
    return stats


def _ops(t):
    if t[0] in LEAF:
        return []
    return [t[0]] + [o for c in t[1:] for o in _ops(c)]


def _nodes(f):
    yield f
    for s in f.subformulas():
        yield from _nodes(s)


def native_guards():
    """modelcheck must raise TypeError for out-of-logic formulas, path formulas where a state formula is required, non-Kripke"""
    from pyModelChecking import Kripke, CTL, LTL, CTLS, PL
    from pyModelChecking.graph import DiGraph
    K = Kripke(S=[0, 1], R=[(0, 1), (1, 0)], L={0: {'p'}})
    cases = [
        ('CTL out of logic (A F G q)', lambda: CTL.modelcheck(K, CTLS.A(CTLS.F(CTLS.G('q'))))),
        ('CTL out of logic text', lambda: CTL.modelcheck(K, CTLS.Parser()('E (p and X q)'))),
        ('CTL path formula', lambda: CTL.modelcheck(K, CTL.X('p'))),
        ('CTL path formula U', lambda: CTL.modelcheck(K, CTL.U('p', 'q'))),
        ('CTL non-Kripke', lambda: CTL.modelcheck(DiGraph(V=[0], E=[(0, 0)]), CTL.AX('p'))),
        ('CTL None', lambda: CTL.modelcheck(None, CTL.AX('p'))),
        ('LTL E formula', lambda: LTL.modelcheck(K, CTLS.E(CTLS.F('p')))),
        ('LTL path formula without A', lambda: LTL.modelcheck(K, LTL.G('p'))),
        ('LTL nested quantifier', lambda: LTL.modelcheck(K, CTLS.A(CTLS.F(CTLS.E(CTLS.G('p')))))),
        ('LTL non-Kripke', lambda: LTL.modelcheck('K', LTL.A(LTL.G('p')))),
        ('CTLS path formula', lambda: CTLS.modelcheck(K, CTLS.X('p'))),
        ('CTLS path formula F G', lambda: CTLS.modelcheck(K, CTLS.F(CTLS.G('p')))),
        ('CTLS non-Kripke', lambda: CTLS.modelcheck(DiGraph(V=[0], E=[(0, 0)]), CTLS.A(CTLS.X('p')))),
    ]
    out = []
    import io, contextlib
    for name, fn in cases:
        try:
            with contextlib.redirect_stdout(io.StringIO()):
                r = fn()
            out.append((name, 'returned %r' % (r,)))
        except TypeError:
            out.append((name, None))
        except Exception as e:
            out.append((name, 'raised %s' % type(e).__name__))
    return out
