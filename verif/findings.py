"""Known findings: re-find each listed open witness natively and print the KNOWN-FINDING line (never writes the file)."""
import subprocess, sys, tempfile, os
from .common import known_findings, REPO


def report_open(rep, pid):
    n = 0
    for f in known_findings()['findings']:
        if f.get('status') != 'open' or f.get('property') != pid:
            continue
        code = 'import sys\nsys.path.insert(0, %r)\n%s\nsys.exit(1 if bad else 0)\n' % (REPO, f['replay'])
        r = subprocess.run([sys.executable, '-c', code], capture_output=True, text=True, timeout=120)
        if r.returncode == 1:
            rep.known_finding('%s %s -- %s' % (f['id'], f['site'], f['witness']))
            n += 1
        else:
            print('note: listed finding %s no longer reproduces on this tree (exit %d): its class is no longer excluded' % (f['id'], r.returncode))
            rep.cov.setdefault('findings_not_reproducing', []).append(f['id'])
    return n


def is_open(fid):
    return any(f['id'] == fid and f.get('status') == 'open' for f in known_findings()['findings'])
