"""One live SMT solver process; the hash-consed Boolean DAG is streamed once as definitional constants
(QF_UF over Bool), queries are check-sat-assuming.  The whole dialogue can be recorded and re-run through
other solver builds (cvc5 binary, the distribution's z3 4.8) for cross-checking."""
import subprocess, time, re, os, tempfile, shutil
from .see import is_c


class SolverError(Exception):
    pass


class SmtProc:
    def __init__(self, cmd=('z3-new', '-in'), record=False, timeout_ms=None):
        self.p = subprocess.Popen(list(cmd), stdin=subprocess.PIPE, stdout=subprocess.PIPE, stderr=subprocess.STDOUT,
                                  text=True, bufsize=1 << 20)
        self.done = set()
        self.vars = {}
        self.t_solve = 0.0
        self.queries = 0
        self.nodes = 0
        self.rec = [] if record else None
        self.answers = []
        self._stack = []
        self.send('(set-option :produce-models true)\n')
        if timeout_ms:
            self.send('(set-option :timeout %d)\n' % timeout_ms)
        self.send('(set-logic QF_UF)\n')

    def send(self, txt):
        self.p.stdin.write(txt)
        if self.rec is not None:
            self.rec.append(txt)

    def name(self, n):
        if n is True:
            return 'true'
        if n is False:
            return 'false'
        if n.op == 'var':
            return n.args
        return 'n%d' % n.uid

    def declare(self, nm):
        if nm not in self.vars:
            self.send('(declare-const %s Bool)\n' % nm)
            self.vars[nm] = True

    def define(self, root):
        if is_c(root):
            return
        out = []
        stack = [root]
        done = self.done
        while stack:
            n = stack[-1]
            if n.uid in done:
                stack.pop()
                continue
            if n.op == 'var':
                if n.args not in self.vars:
                    out.append('(declare-const %s Bool)\n' % n.args)
                self.vars[n.args] = n
                done.add(n.uid)
                stack.pop()
                continue
            todo = [a for a in n.args if not is_c(a) and a.uid not in done]
            if todo:
                stack.extend(todo)
                continue
            out.append('(define-fun n%d () Bool (%s %s))\n' % (n.uid, n.op, ' '.join(self.name(a) for a in n.args)))
            done.add(n.uid)
            stack.pop()
        self.nodes += len(out)
        self.send(''.join(out))

    def _readline(self):
        r = self.p.stdout.readline()
        if r == '':
            raise SolverError('solver process ended')
        if '(error' in r:
            raise SolverError(r.strip())
        return r

    def check_text(self, lits=()):
        """lits: SMT-LIB terms (strings) assumed for this query only"""
        t = time.time()
        if lits:
            # assumptions of check-sat-assuming must be literals: name compound terms through push/assert
            self.send('(push 1)\n%s(check-sat)\n(pop 1)\n' % ''.join('(assert %s)\n' % l for l in lits))
        else:
            self.send('(check-sat)\n')
        self.p.stdin.flush()
        r = self._readline().strip()
        self.t_solve += time.time() - t
        self.queries += 1
        if r not in ('sat', 'unsat', 'unknown'):
            raise SolverError('solver said %r' % r)
        self.answers.append(r)
        return r

    def check(self, *lits):
        """sat/unsat/unknown of the conjunction of DAG nodes `lits` (plus everything asserted)"""
        if any(l is False for l in lits):
            self.queries += 1
            return 'unsat'
        for l in lits:
            self.define(l)
        ls = [self.name(l) for l in lits if l is not True]
        t = time.time()
        self.send('(check-sat-assuming (%s))\n' % ' '.join(ls) if ls else '(check-sat)\n')
        self.p.stdin.flush()
        r = self._readline().strip()
        self.t_solve += time.time() - t
        self.queries += 1
        if r not in ('sat', 'unsat', 'unknown'):
            raise SolverError('solver said %r' % r)
        self.answers.append(r)
        return r

    def values(self, names=None):
        names = sorted(self.vars) if names is None else list(names)
        if not names:
            return {}
        self.send('(get-value (%s))\n' % ' '.join(names))
        self.p.stdin.flush()
        txt = ''
        depth = 0
        while True:
            line = self._readline()
            txt += line
            depth += line.count('(') - line.count(')')
            if depth <= 0 and txt.strip():
                break
        return {k: v == 'true' for k, v in re.findall(r'\(([^\s()]+) (true|false)\)', txt)}

    def push(self):
        self.send('(push 1)\n')
        self._stack.append((set(self.done), dict(self.vars)))

    def pop(self):
        self.send('(pop 1)\n')
        self.done, self.vars = self._stack.pop()

    def assert_(self, node):
        self.define(node)
        self.send('(assert %s)\n' % self.name(node))

    def assert_text(self, txt):
        self.send('(assert %s)\n' % txt)

    def close(self):
        try:
            self.send('(exit)\n')
            self.p.stdin.flush()
            self.p.wait(timeout=5)
        except Exception:
            self.p.kill()

    # ---- cross-checking the recorded dialogue with other solver builds
    def replay_with(self, cmd, timeout=600):
        """re-run the recorded dialogue (without get-value) through another solver; returns its answers or None"""
        if self.rec is None:
            return None
        txt = ''.join(self.rec)
        txt = re.sub(r'\(get-value \([^)]*\)\)\n', '', txt)
        txt = txt.replace('(set-option :produce-models true)\n', '')
        fd, path = tempfile.mkstemp(suffix='.smt2', prefix='verif_x_')
        try:
            with os.fdopen(fd, 'w') as f:
                f.write(txt)
            try:
                r = subprocess.run(list(cmd) + [path], capture_output=True, text=True, timeout=timeout)
            except subprocess.TimeoutExpired:
                return ['timeout']
            out = [l.strip() for l in r.stdout.splitlines() if l.strip()]
            if any('(error' in l for l in out):
                return ['error: ' + ' '.join(out)[:200]]
            return [l for l in out if l in ('sat', 'unsat', 'unknown')]
        finally:
            os.unlink(path)


OTHER_SOLVERS = [('cvc5-1.0.3', ('cvc5', '--incremental')), ('z3-4.8.12', ('/usr/bin/z3',))]


def cross_check(smt, timeout=600):
    """answers of the other solver builds on the recorded dialogue: {name: 'agree' | description}"""
    res = {}
    for name, cmd in OTHER_SOLVERS:
        if shutil.which(cmd[0]) is None:
            res[name] = 'absent'
            continue
        ans = smt.replay_with(cmd, timeout)
        if ans == ['timeout']:
            res[name] = 'timeout'           # the other build did not finish: no information, not a disagreement
        elif ans is not None and len(ans) == len(smt.answers) and all(a == b or a == 'unknown' for a, b in zip(ans, smt.answers)):
            res[name] = 'agree' if ans == smt.answers else 'agree-or-unknown'
        else:
            res[name] = 'DISAGREE %s vs %s' % (ans, smt.answers)
    return res
