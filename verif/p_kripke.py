"""Driver for C14."""
import itertools
from .common import pmap
from . import kripke_checks as kc
from .p_graph import TRUSTED, absorb


UNIVERSES = [(0, 1, 2), ((0, 0), (0, 1), ()), ('s', (1,), 2)]


def run_c14(rep, tier):
    rep.assumptions += ['universe of 3 state values plus one value that is never a state, for three choices of the values: ints {0,1,2}, tuples {(0,0),(0,1),()}, mixed {"s",(1,),2}; one atom p; label dictionaries with symbolic key presence',
                        '/repo at fix commit 36a2c0d or later (get_substructure labels repaired)', 'a state whose value is None is known finding D16 (labels(None) is the whole-structure form) and is not among the state values']
    rep.cov['trusted_base'] = TRUSTED
    rep.cov['explanation'] = ('Kripke.__init__ (and DiGraph.__init__) executed symbolically with symbolic membership of S, R, S0 and symbolic keys/values of L: '
                              'solver proves "raises RuntimeError <=> some node of S u ends(R) has no successor", no other exception, exact states/transitions/labels/S0 '
                              'of the constructed object, labels()/next() raise RuntimeError exactly on non-states, label sets are copies; clone() and '
                              'get_substructure(V) for symbolic V: raises <=> induced relation not total, else exact induced structure, no shared set, receiver unchanged')
    from . import findings
    findings.report_open(rep, 'C14')          # D16: a state whose value is None (outside every universe below)
    tasks = []
    fk = ['s0_%d' % i for i in range(3)] + ['lk_%d' % i for i in range(3)]
    fk2 = ['s0_%d' % i for i in range(3)]
    # the three state values: small ints; tuples of length 2, 2 and 0 (what product constructions use); a str/tuple/int mix
    for u in UNIVERSES:
        for vals in itertools.product([False, True], repeat=6):
            tasks.append(('ctor', dict(zip(fk, vals)), u))
        for vals in itertools.product([False, True], repeat=3):
            tasks.append(('clone', dict(zip(fk2, vals)), u))
            tasks.append(('sub', dict(zip(fk2, vals)), u))
    rep.cov['bounds'].update(universe=3, state_values=[repr(u) for u in UNIVERSES],
                             forks='per universe: ctor 64 forks (S0 and key presence) x 15 merged unknowns; clone/substructure: 8 forks x 15-16 merged unknowns')
    n = 0
    for t, st, r, secs in pmap(_dispatch, tasks):
        key = 'kripke %s states=%r fork=%s' % (t[0], t[2], ''.join('1' if v else '0' for v in t[1].values()))
        if st == 'ok':
            r.setdefault('solver_s', 0); r.setdefault('gates', 0); r.setdefault('queries', 0); r.setdefault('encode_s', 0)
        absorb(rep, t, st, r, secs, key, kc.c14_replay, {'ctor': 'Kripke(S,S0,R,L): raises <=> not total; exact contents; accessors',
                                                        'clone': 'clone(): equal, independent, receiver unchanged',
                                                        'sub': 'get_substructure(V): raises <=> induced relation not total; exact induced structure'}[t[0]])
        if st == 'ok':
            if r.get('shared'):
                rep.inconclusive('%s: a set object is shared with the original' % key)
            if r['verdict'] == 'unsat':
                n += 1
    rep.cov['states'] = n
    rep.cov['transitions'] = n
    rep.cov['states_meaning'] = 'forks decided unsat; each covers 2^15..2^16 argument combinations'


def _dispatch(what, fixed, u=(0, 1, 2)):
    if what == 'ctor':
        r = kc.ctor_task(fixed, u)
        if r.get('twin2') != 'sat' and r.get('twin') == 'sat':
            r['twin'] = r['twin2']
        return r
    return kc.copy_task(what, fixed, u)
