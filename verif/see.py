"""
SEE -- symbolic evaluator of the real source (DESIGN.md section 2).

A guarded, merged-control-flow evaluator for the Python subset used by pyModelChecking.  Functions of
the *interpreted* modules are parsed from their current source (inspect.getsource + ast) on every run
and executed over guarded values; one run yields, for every observable, a Boolean circuit over the
declared unknowns.  The circuits go to an SMT solver (verif.smt); nothing in this file decides a
property.
"""
import ast, inspect, types, textwrap, builtins, copy

# ------------------------------------------------------------------ guards (hash-consed Boolean DAG)
class B:
    __slots__ = ('op', 'args', 'uid', 'tt', '__weakref__')

    def __repr__(self):
        if self.op == 'var':
            return self.args
        return '%s(%s)' % (self.op, ', '.join(map(repr, self.args)))


_INTERN = {}
_NEXT = [0]


SUBST = {}     # uid -> bool : decisions of the current path (inputs and derived conditions)
TT = dict(on=False, mask=0, var={}, by={})


def enable_tt(names):
    """semantic hash-consing: exact truth tables over the declared unknowns (<= 16)"""
    k = len(names)
    assert k <= 18
    size = 1 << k
    mask = (1 << size) - 1
    TT.update(on=True, mask=mask, var={}, by={})
    for i, nm in enumerate(names):
        # bit a of the table = value of variable i under assignment a
        block = ((1 << (1 << i)) - 1) << (1 << i)          # 0..0 1..1 pattern of width 2^(i+1)
        t = 0
        period = 1 << (i + 1)
        reps = size // period
        # build by repeated doubling
        t = block
        w = period
        while w < size:
            t |= t << w
            w <<= 1
        TT['var'][nm] = t & mask
    _INTERN.clear()
    _SUPP.clear()


def restrict_care(care):
    """identify functions that agree wherever `care` holds (assumption folded into the canonical form)"""
    m = care.tt if not is_c(care) else (TT['mask'] if care else 0)
    TT['mask'] = m
    TT['by'] = {}
    for nm in TT['var']:
        TT['var'][nm] &= m
    _INTERN.clear()
    _SUPP.clear()


LEMMAS = dict(n=0, keep=[], cap=0, rng=None, last=None, must=[])
ORDER = dict(key=None, tie=None)      # global iteration order of sets (C06): key function or None (= ascending / insertion)


def reset():
    """forget every DAG node, truth table, lemma and variable (start of an independent run)"""
    _INTERN.clear()
    SUBST.clear()
    TT.update(on=False, mask=0, var={}, by={})
    LEMMAS.update(n=0, keep=[], cap=0, rng=None, last=None, must=[])
    ORDER.update(key=None, tie=None)
    VAR_IDX.clear()
    del VAR_NAMES[:]
    _SUPP.clear()
    del TRACE[:]


def tt_off():
    """switch functional reduction off and forget the representatives (oracle / raw circuits)"""
    TT['on'] = False
    _INTERN.clear()
    _SUPP.clear()


def _lemma(op, args, result):
    """reservoir sample of simplifier rewrites  gate(op,args) == result  for the solver audit"""
    L = LEMMAS
    if not L['cap'] or op == 'var':
        return
    L['n'] += 1
    L['last'] = (op, args, result)
    if len(L['keep']) < L['cap']:
        L['keep'].append((op, args, result))
    else:
        j = L['rng'].randrange(L['n'])
        if j < L['cap']:
            L['keep'][j] = (op, args, result)


def _tt_of(op, args):
    m = TT['mask']
    if op == 'var':
        return TT['var'][args]
    if op == 'not':
        return m ^ args[0].tt
    if op == 'and':
        t = m
        for a in args:
            t &= a.tt
        return t
    if op == 'or':
        t = 0
        for a in args:
            t |= a.tt
        return t
    c, a, b = args
    return (c.tt & a.tt) | ((m ^ c.tt) & b.tt)


def _mk(op, args):
    key = (op, args if op == 'var' else tuple(a.uid for a in args))
    n = _INTERN.get(key)
    if n is None:
        if TT['on']:
            t = _tt_of(op, args)
            if t == 0:
                _lemma(op, args, False)
                return False
            if t == TT['mask']:
                _lemma(op, args, True)
                return True
            rep = TT['by'].get(t)
            if rep is not None:
                _INTERN[key] = rep
                _lemma(op, args, rep)
                return rep
            nrep = TT['by'].get(TT['mask'] ^ t)
            if nrep is not None and op != 'not':
                r = _mk('not', (nrep,))
                _INTERN[key] = r
                _lemma(op, args, r)
                return r
        n = B()
        n.op, n.args = op, args
        n.uid = _NEXT[0]
        _NEXT[0] += 1
        _INTERN[key] = n
        if TT['on']:
            n.tt = t
            TT['by'][t] = n
    if SUBST:
        r = SUBST.get(n.uid)
        if r is not None:
            return r
    return n


VAR_IDX = {}
VAR_NAMES = []
_SUPP = {}


def var(name):
    if name not in VAR_IDX:
        VAR_IDX[name] = len(VAR_NAMES)
        VAR_NAMES.append(name)
    return _mk('var', name)


def support(b):
    if is_c(b):
        return 0
    r = _SUPP.get(b.uid)
    if r is not None:
        return r
    stack = [b]
    while stack:
        n = stack[-1]
        if n.uid in _SUPP:
            stack.pop()
            continue
        if n.op == 'var':
            _SUPP[n.uid] = 1 << VAR_IDX[n.args]
            stack.pop()
            continue
        todo = [a for a in n.args if a.uid not in _SUPP]
        if todo:
            stack.extend(todo)
            continue
        m = 0
        for a in n.args:
            m |= _SUPP[a.uid]
        _SUPP[n.uid] = m
        stack.pop()
    return _SUPP[b.uid]


def has_yield(fnode):
    """does this function body (not the functions nested in it) contain yield / yield from?"""
    stack = list(fnode.body) if isinstance(fnode.body, list) else [fnode.body]
    while stack:
        n = stack.pop()
        if isinstance(n, (ast.Yield, ast.YieldFrom)):
            return True
        if isinstance(n, (ast.FunctionDef, ast.AsyncFunctionDef, ast.Lambda, ast.ClassDef)):
            continue
        stack.extend(ast.iter_child_nodes(n))
    return False


class NeedDecision(Exception):
    def __init__(self, node):
        self.node = node


class Infeasible(Exception):
    pass


def is_c(b):
    return b is True or b is False


def b_not(x):
    if x is True:
        return False
    if x is False:
        return True
    if x.op == 'not':
        return x.args[0]
    return _mk('not', (x,))


def _flat(xs, is_and):
    seen = {}
    flat = set()
    op = 'and' if is_and else 'or'
    stack = list(reversed(xs))
    while stack:
        x = stack.pop()
        if is_c(x):
            if x is (not is_and):
                return None
            continue
        if x.op == op and len(x.args) <= 8:
            flat.add(x.uid)
            stack.extend(reversed(x.args))
            continue
        seen[x.uid] = x
    for x in seen.values():
        if x.op == 'not' and (x.args[0].uid in seen or x.args[0].uid in flat):
            return None
    return sorted(seen.values(), key=lambda n: n.uid)


def b_and(*xs):
    out = _flat(xs, True)
    if out is None:
        return False
    if not out:
        return True
    if len(out) == 1:
        return out[0]
    return _mk('and', tuple(out))


def b_or(*xs):
    out = _flat(xs, False)
    if out is None:
        return True
    if not out:
        return False
    if len(out) == 1:
        return out[0]
    return _mk('or', tuple(out))


def same_g(a, b):
    return a is b


def b_ite(g, a, b):
    if g is True:
        return a
    if g is False:
        return b
    if a is b:
        return a
    if a is True:
        return b_or(g, b)
    if a is False:
        return b_and(b_not(g), b)
    if b is True:
        return b_or(b_not(g), a)
    if b is False:
        return b_and(g, a)
    if g.op == 'not':
        return _mk('ite', (g.args[0], b, a))
    return _mk('ite', (g, a, b))


def b_xor(a, b):
    return b_ite(a, b_not(b), b)


def b_iff(a, b):
    return b_ite(a, b, b_not(b))


def dag_size(root):
    seen = set()
    stack = [root]
    while stack:
        n = stack.pop()
        if is_c(n) or n.uid in seen:
            continue
        seen.add(n.uid)
        if n.op != 'var':
            stack.extend(n.args)
    return len(seen)


# ------------------------------------------------------------------ values
class SBool:
    __slots__ = ('e',)

    def __init__(self, e):
        self.e = e

    def __repr__(self):
        return 'SBool(%s)' % (self.e,)


def mk_bool(e):
    return e if is_c(e) else SBool(e)


def as_b(v):
    if isinstance(v, SBool):
        return v.e
    if isinstance(v, bool):
        return v
    raise TypeError('as_b %r' % (v,))


class SInt:
    __slots__ = ('e',)

    def __init__(self, e):
        self.e = e

    def __repr__(self):
        return 'SInt(%s)' % (self.e,)




class Undef:
    def __repr__(self):
        return 'UNDEF'


UNDEF = Undef()


class SChoice:
    """guarded union; guards exclusive and (under the path guard) exhaustive"""
    __slots__ = ('alts',)

    def __init__(self, alts):
        self.alts = alts

    def __repr__(self):
        return 'SChoice(%s)' % (self.alts,)


def alts_of(v):
    if isinstance(v, SChoice):
        return v.alts
    if isinstance(v, SBool):
        return [(v.e, True), (b_not(v.e), False)]
    return [(True, v)]


HEAP = ()


def same_concrete(a, b):
    if a is b:
        return True
    if isinstance(a, HEAP) or isinstance(b, HEAP):
        return False
    if type(a) is not type(b):
        return False
    if isinstance(a, (int, str, bool, type(None), frozenset)):
        return a == b
    if isinstance(a, tuple) and len(a) == len(b):
        return all(same_concrete(x, y) for x, y in zip(a, b))
    return False


def merge(g, a, b):
    if g is True:
        return a
    if g is False:
        return b
    if a is b:
        return a
    if a is UNDEF:
        return b
    if b is UNDEF:
        return a
    if isinstance(a, (SBool, bool)) and isinstance(b, (SBool, bool)):
        return mk_bool(b_ite(g, as_b(a), as_b(b)))
    if not isinstance(a, SChoice) and not isinstance(b, SChoice):
        if same_concrete(a, b):
            return a
        if isinstance(a, tuple) and isinstance(b, tuple) and len(a) == len(b) and (is_symbolic(a) or is_symbolic(b)):
            return tuple(merge(g, x, y) for x, y in zip(a, b))     # concrete tuples (e.g. tuple-valued states) stay atomic
    out = [(b_and(g, ga), va) for (ga, va) in alts_of(a)]
    ng = b_not(g)
    out += [(b_and(ng, gb), vb) for (gb, vb) in alts_of(b)]
    res = []
    for (gg, vv) in out:
        if gg is False:
            continue
        for i, (g2, v2) in enumerate(res):
            if same_concrete(vv, v2):
                res[i] = (b_or(g2, gg), v2)
                break
        else:
            res.append((gg, vv))
    if len(res) == 1:
        return res[0][1]
    return SChoice(res)


def fold(v, f):
    """apply f(alt) to every alternative and merge (ite chain, last alt = default)"""
    alts = alts_of(v)
    res = f(alts[-1][1])
    for (g, a) in reversed(alts[:-1]):
        res = merge(g, f(a), res)
    return res


def fold_b(v, f):
    alts = alts_of(v)
    res = f(alts[-1][1])
    for (g, a) in reversed(alts[:-1]):
        res = b_ite(g, f(a), res)
    return res


# ------------------------------------------------------------------ heap
class MSet:
    def __init__(self):
        self.bits = {}
        self.order = []

    def get(self, k):
        return self.bits.get(k, False)

    def put(self, k, b):
        if k not in self.bits:
            self.order.append(k)
        self.bits[k] = b

    def copy(self):
        m = MSet()
        m.bits = dict(self.bits)
        m.order = list(self.order)
        return m

    def keys_sorted(self):
        if ORDER['key'] is not None:
            try:
                return sorted(self.order, key=ORDER['key'])
            except TypeError:
                pass
        try:
            return sorted(self.order)
        except TypeError:
            if ORDER['tie'] is not None:
                # unsortable keys (formulas, mixed types): CPython's order is a function of their hashes, i.e. of the
                # hash seed; modelled by one seeded global order of printed forms
                import hashlib
                return sorted(self.order, key=lambda k: hashlib.sha1(('%s/%r' % (ORDER['tie'], k)).encode()).hexdigest())
            return list(self.order)

    def __repr__(self):
        return 'MSet(%s)' % (self.bits,)


class MDict:
    def __init__(self):
        self.present = {}
        self.vals = {}
        self.order = []

    def __repr__(self):
        return 'MDict(%s)' % ({k: (self.present[k], self.vals[k]) for k in self.order},)


class MList:
    def __init__(self, items=()):
        self.slots = list(items)
        self.lo = self.hi = len(self.slots)
        self.len = len(self.slots)

    def len_is(self, k):
        return fold_b(self.len, lambda n: n == k)

    def len_gt(self, k):
        return fold_b(self.len, lambda n: n > k)

    def __repr__(self):
        return 'MList(len=%s,%s)' % (self.len, self.slots)


class SetIter:
    def __init__(self, bits, order):
        self.rem = dict(bits)
        self.order = list(order)


class ListIter:
    def __init__(self, lst):
        self.lst = lst
        self.pos = 0


class GSeq:
    def __init__(self, entries):
        self.entries = entries


class MObj:
    def __init__(self, cls):
        self.cls = cls
        self.attrs = {}
        self.apres = {}        # attribute name -> guard under which it exists (absent entry = wherever the object exists)

    def __repr__(self):
        return '<MObj %s>' % self.cls.__name__


class KeysView:
    def __init__(self, d):
        self.d = d


class ItemsView:
    def __init__(self, d):
        self.d = d


class ValuesView:
    def __init__(self, d):
        self.d = d


HEAP = (MSet, MDict, MList, SetIter, ListIter, GSeq, MObj, KeysView, ItemsView, ValuesView)


class Unsupported(Exception):
    pass


class LocalFn:
    def __init__(self, node, frame, defaults=()):
        self.node = node
        self.frame = frame
        self.defaults = tuple(defaults)


class BoundMethod:
    def __init__(self, fn, obj):
        self.fn = fn
        self.obj = obj


class SuperProxy:
    def __init__(self, cls, obj):
        self.cls = cls
        self.obj = obj


class ObjectNew:
    pass


class BuiltinMethod:
    def __init__(self, obj, name):
        self.obj = obj
        self.name = name


FMT = '<sym>'


def is_symbolic(v, d=0):
    if isinstance(v, (SBool, SInt, SChoice, LocalFn, BoundMethod, BuiltinMethod, WeakRefModel) + HEAP):
        return True
    if d < 3 and isinstance(v, (tuple, list)):
        return any(is_symbolic(x, d + 1) for x in v)
    return False


# ------------------------------------------------------------------ frames
class Frame:
    def __init__(self, name, globs=None, closure=None, parent=None):
        self.name = name
        self.locals = {}
        self.ret = []
        self.exc = []     # (guard, exc, env)
        self.yields = None
        self.brk = []
        self.cont = []
        self.globals = globs if globs is not None else {}
        self.closure = closure if closure is not None else {}
        self.parent = parent


def join_env(parts):
    parts = [(g, L) for (g, L) in parts if g is not False]
    if not parts:
        return {}
    if len(parts) == 1:
        return parts[0][1]
    res = dict(parts[-1][1])
    for (g, L) in reversed(parts[:-1]):
        keys = set(res) | set(L)
        new = {}
        for k in keys:
            a, b = L.get(k, UNDEF), res.get(k, UNDEF)
            new[k] = a if a is b else merge(g, a, b)
        res = new
    return res


TRACE = []


class VM:
    def __init__(self, mods, max_unroll=200, check_unroll=True):
        self.mods = set(mods)
        self.cache = {}
        self.smt = None
        self.max_unroll = max_unroll
        self.check_unroll = check_unroll
        self.unwind = []
        self.stats = dict(calls=0, feas=0, stmts=0, loops={})
        self.encoded = set()
        self.assumptions = []
        self.decisions = {}
        self.fork_mask = 0
        self.fork_funcs = set()
        self.bounds = {}
        self.class_shadow = {}
        self.global_shadow = {}
        self.global_vals = {}          # (module, name) -> value of module-level names rebound through `global`

    def inp(self, name, fork=False):
        v = var(name)
        if fork and not is_c(v):
            self.fork_mask |= 1 << VAR_IDX[name]
        return v

    def conc(self, cond):
        if is_c(cond):
            return cond
        if self.fork_funcs and TRACE and TRACE[-1][0] in self.fork_funcs:
            raise NeedDecision(cond.args[0] if cond.op == 'not' else cond)
        if not self.fork_mask:
            return cond
        m = support(cond) & self.fork_mask
        if m:
            raise NeedDecision(_INTERN[('var', VAR_NAMES[(m & -m).bit_length() - 1])])
        return cond

    def assume(self, cond):
        if cond is False:
            raise Infeasible()
        if cond is not True:
            self.assumptions.append(cond)

    def fn_ast(self, fn):
        key = fn.__code__
        if key not in self.cache:
            tree = ast.parse(textwrap.dedent(inspect.getsource(fn)))
            node = tree.body[0]
            gen = has_yield(node)
            self.cache[key] = (node, gen)
            self.encoded.add('%s.%s' % (fn.__module__, fn.__qualname__))
        return self.cache[key]

    def interp(self, fn):
        return isinstance(fn, types.FunctionType) and fn.__module__ in self.mods

    def feasible(self, g):
        if is_c(g):
            return g
        self.stats['feas'] += 1
        if self.smt is None:
            from .smt import SmtProc
            self.smt = SmtProc()
        return self.smt.check(g, *self.assumptions) != 'unsat'

    # -------- function call
    def call_function(self, fn, args, kwargs, g):
        node, gen = self.fn_ast(fn)
        self.stats['calls'] += 1
        closure = {}
        if fn.__closure__:
            for nm, cell in zip(fn.__code__.co_freevars, fn.__closure__):
                try:
                    closure[nm] = cell.cell_contents
                except ValueError:
                    pass
        fr = Frame(fn.__qualname__, fn.__globals__, closure)
        self.bind(node.args, fn.__defaults__ or (), fr, args, kwargs)
        if fn.__kwdefaults__:
            for k_, v_ in fn.__kwdefaults__.items():
                if k_ not in kwargs:
                    fr.locals[k_] = v_
        fr.first_arg = node.args.args[0].arg if node.args.args else None
        return self.run_body(node, fr, g, gen)

    def run_body(self, node, fr, g, gen):
        if gen:
            fr.yields = []
        gout = self.block(node.body, fr, g)
        if gout is not False:
            fr.ret.append((gout, None))
        if gen:
            return GSeq(fr.yields), fr.exc
        val = UNDEF
        for (gr, v) in reversed(fr.ret):
            val = v if val is UNDEF else merge(gr, v, val)
        return (None if val is UNDEF else val), fr.exc

    def bind(self, a, defaults, fr, args, kwargs):
        names = [x.arg for x in a.args]
        dmap = dict(zip(names[len(names) - len(defaults):], defaults))
        args = list(args)
        for i, nm in enumerate(names):
            if i < len(args):
                fr.locals[nm] = args[i]
            elif nm in kwargs:
                fr.locals[nm] = kwargs[nm]
            elif nm in dmap:
                fr.locals[nm] = dmap[nm]
            else:
                raise Unsupported('missing arg %s in %s' % (nm, fr.name))
        if a.vararg:
            fr.locals[a.vararg.arg] = tuple(args[len(names):])
        elif len(args) > len(names):
            raise Unsupported('too many positional arguments for %s' % fr.name)
        used = set(names)
        for ka, kd in zip(a.kwonlyargs, a.kw_defaults):
            used.add(ka.arg)
            if ka.arg in kwargs:
                fr.locals[ka.arg] = kwargs[ka.arg]
            elif kd is not None:
                fr.locals[ka.arg] = Ctx(self, fr, True).ev(kd)
            else:
                raise Unsupported('missing keyword-only arg %s in %s' % (ka.arg, fr.name))
        extra = {k: v for k, v in kwargs.items() if k not in used}
        if a.kwarg:
            d = MDict()
            for k, v in extra.items():
                Ctx(self, fr, True).setitem(d, k, v)
            fr.locals[a.kwarg.arg] = d
        elif extra:
            raise Unsupported('unexpected keyword arguments %s for %s' % (sorted(extra), fr.name))

    # -------- statements
    def block(self, stmts, fr, g):
        for s in stmts:
            if g is False:
                return False
            self.stats['stmts'] += 1
            TRACE.append((fr.name, s.lineno))
            try:
                g = getattr(self, 'st_' + type(s).__name__)(s, fr, Ctx(self, fr, g))
            finally:
                TRACE.pop()
        return g

    def st_Expr(self, s, fr, c):
        if isinstance(s.value, ast.Constant):
            return c.g
        if isinstance(s.value, ast.Yield):
            v = c.ev(s.value.value) if s.value.value is not None else None
            if c.g is not False:
                fr.yields.append((c.g, v))
            return c.g
        if isinstance(s.value, ast.YieldFrom):
            it = c.ev(s.value.value)
            for (ge, v) in c.iter_plan(it):
                gg = b_and(c.g, ge)
                if gg is not False:
                    fr.yields.append((gg, v))
            return c.g
        c.ev(s.value)
        return c.g

    def st_Pass(self, s, fr, c):
        return c.g

    def st_Return(self, s, fr, c):
        v = c.ev(s.value) if s.value is not None else None
        if c.g is not False:
            fr.ret.append((c.g, v))
        return False

    def st_Raise(self, s, fr, c):
        e = c.live(c.ev(s.exc))
        if isinstance(e, SChoice):
            # the exception object depends on the input (e.g. its message names a symbolic element): one raise per alternative
            for (ga, ea) in e.alts:
                c.raise_(ga, ea() if isinstance(ea, type) else ea)
            c.raise_(True, Unsupported('raise of an empty union'))
            return False
        if isinstance(e, type):
            e = e()
        c.raise_(True, e)
        return False

    def st_Assign(self, s, fr, c):
        v = c.ev(s.value)
        if c.g is False:
            return False
        for t in s.targets:
            c.assign(t, v)
        return c.g

    def st_AugAssign(self, s, fr, c):
        t2 = copy.copy(s.target)
        t2.ctx = ast.Load()
        cur = c.ev(t2)
        rhs = c.ev(s.value)
        if isinstance(cur, MSet) and isinstance(s.op, (ast.BitOr, ast.BitAnd, ast.Sub, ast.BitXor)):
            # sets are updated IN PLACE (other references see the change), as in Python
            other = c.to_mset(c.flatten_set(rhs) if isinstance(rhs, SChoice) else rhs)
            g = c.g
            for k in list(cur.order) + [k for k in other.order if k not in cur.bits]:
                x, y = cur.get(k), other.get(k)
                if isinstance(s.op, ast.BitOr):
                    v = b_or(x, y)
                elif isinstance(s.op, ast.BitAnd):
                    v = b_and(x, y)
                elif isinstance(s.op, ast.Sub):
                    v = b_and(x, b_not(y))
                else:
                    v = b_xor(x, y)
                cur.put(k, b_ite(g, v, x))
            return c.g
        if isinstance(cur, MList) and isinstance(s.op, ast.Add):
            builtin_method(c, cur, 'extend', [rhs], {})
            return c.g
        v = c.binop(s.op, cur, rhs)
        c.assign(s.target, v)
        return c.g

    def st_Assert(self, s, fr, c):
        cond = self.conc(c.truth(c.ev(s.test)))
        c.raise_(b_not(cond), AssertionError())
        return c.g

    def st_Delete(self, s, fr, c):
        for t in s.targets:
            if isinstance(t, ast.Name):
                fr.locals.pop(t.id, None)
            elif isinstance(t, ast.Subscript):
                o, k = c.ev(t.value), c.ev(t.slice)
                if isinstance(o, MDict) and not isinstance(k, (SChoice, SBool)):
                    pres = o.present.get(k, False)
                    c.raise_(b_not(pres), KeyError(k))
                    if k in o.present:
                        o.present[k] = b_and(o.present[k], b_not(c.g))
                elif isinstance(o, MList) and isinstance(k, int) and not isinstance(k, bool) and k >= 0:
                    list_pop_at(c, o, k)
                elif isinstance(o, (dict, list)) and c.g is True and not is_symbolic(k):
                    del o[k]
                else:
                    raise Unsupported('del of %r[%r]' % (o, k))
            else:
                raise Unsupported('del target')
        return c.g

    def st_Import(self, s, fr, c):
        import importlib
        for a in s.names:
            mod = importlib.import_module(a.name)
            if a.asname:
                fr.locals[a.asname] = mod
            else:
                fr.locals[a.name.split('.')[0]] = importlib.import_module(a.name.split('.')[0])
        return c.g

    def st_ImportFrom(self, s, fr, c):
        import importlib
        if s.level:
            pkg = fr.globals.get('__package__') or fr.globals.get('__name__', '').rpartition('.')[0]
            mod = importlib.import_module('.' * s.level + (s.module or ''), pkg)
        else:
            mod = importlib.import_module(s.module)
        for a in s.names:
            if a.name == '*':
                raise Unsupported('from ... import *')
            try:
                fr.locals[a.asname or a.name] = getattr(mod, a.name)
            except AttributeError:
                fr.locals[a.asname or a.name] = importlib.import_module(mod.__name__ + '.' + a.name)
        return c.g

    def st_Global(self, s, fr, c):
        # module-level names rebound by the function: their value lives in vm.global_vals for the whole run (all calls of a harness)
        fr.global_names = getattr(fr, 'global_names', set()) | set(s.names)
        return c.g

    def st_Nonlocal(self, s, fr, c):
        fr.nonlocals = getattr(fr, 'nonlocals', set()) | set(s.names)
        return c.g

    def st_If(self, s, fr, c):
        cond = self.conc(c.truth(c.ev(s.test)))
        g = c.g
        if cond is True:
            return self.block(s.body, fr, g)
        if cond is False:
            return self.block(s.orelse, fr, g)
        gt, gf = b_and(g, cond), b_and(g, b_not(cond))
        base = fr.locals
        fr.locals = dict(base)
        g1 = self.block(s.body, fr, gt)
        L1 = fr.locals
        fr.locals = dict(base)
        g2 = self.block(s.orelse, fr, gf)
        L2 = fr.locals
        fr.locals = join_env([(g1, L1), (g2, L2)])
        if same_g(g1, gt) and same_g(g2, gf):
            return g
        return b_or(g1, g2)

    def st_For(self, s, fr, c):
        it = c.ev(s.iter)
        cur = c.g
        saved_brk, saved_cont = fr.brk, fr.cont
        fr.brk = []
        for (ge, val) in c.iter_plan(it):
            ge = self.conc(ge)
            gi = b_and(cur, ge)
            if gi is False:
                continue
            base = fr.locals
            fr.locals = dict(base)
            Ctx(self, fr, gi).bind_target(s.target, val)
            fr.cont = []
            nbrk, nret, nexc = len(fr.brk), len(fr.ret), len(fr.exc)
            gb = self.block(s.body, fr, gi)
            skip = b_and(cur, b_not(ge))
            fr.locals = join_env([(gb, fr.locals)] + fr.cont + [(skip, base)])
            if same_g(gb, gi) and not fr.cont:
                pass   # every path of this iteration falls through: cur unchanged
            else:
                cur = b_or(skip, gb, *[gc for gc, _ in fr.cont])
        brk = fr.brk
        fr.brk, fr.cont = saved_brk, saved_cont
        if s.orelse:
            cur = self.block(s.orelse, fr, cur)
        if brk:
            fr.locals = join_env([(cur, fr.locals)] + brk)
            cur = b_or(cur, *[gb for gb, _ in brk])
        return cur

    def st_While(self, s, fr, c):
        g = c.g
        saved_brk, saved_cont = fr.brk, fr.cont
        fr.brk = []
        exits = []
        n = 0
        key = (fr.name, s.lineno)
        while True:
            cc = Ctx(self, fr, g)
            cond = self.conc(cc.truth(cc.ev(s.test)))
            g = cc.g
            n_before = LEMMAS['n']
            gin = b_and(g, cond)
            if gin is False and LEMMAS['n'] != n_before and LEMMAS['last'] is not None and LEMMAS['last'][2] is False:
                LEMMAS['must'].append(LEMMAS['last'])      # the fold that ends this loop: always re-proved by the solver
            gout = b_and(g, b_not(cond))
            if gout is not False:
                exits.append((gout, fr.locals))
            if gin is False:
                break
            if n >= 1 and self.check_unroll and not self.feasible(gin):
                break
            if n >= self.bounds.get(key[0], self.max_unroll):
                self.unwind.append((key, gin))
                break
            n += 1
            fr.locals = dict(fr.locals)
            fr.cont = []
            gb = self.block(s.body, fr, gin)
            fr.locals = join_env([(gb, fr.locals)] + fr.cont)
            g = b_or(gb, *[gc for gc, _ in fr.cont])
            if g is False:
                break
        self.stats['loops'][key] = max(self.stats['loops'].get(key, 0), n)
        brk = fr.brk
        fr.brk, fr.cont = saved_brk, saved_cont
        if s.orelse:
            # the else branch runs on normal exhaustion of the loop, not after a break
            fr.locals = join_env(exits)
            gelse = self.block(s.orelse, fr, b_or(*[gp for gp, _ in exits]))
            exits = [(gelse, fr.locals)]
        parts = exits + brk
        fr.locals = join_env(parts)
        return b_or(*[gp for gp, _ in parts])

    def st_Break(self, s, fr, c):
        fr.brk.append((c.g, fr.locals))
        return False

    def st_Continue(self, s, fr, c):
        fr.cont.append((c.g, fr.locals))
        return False

    def st_Try(self, s, fr, c):
        g = c.g
        saved = fr.exc
        fr.exc = []
        gbody = self.block(s.body, fr, g)
        Lbody = fr.locals
        raised = fr.exc
        fr.exc = saved
        parts = [(gbody, Lbody)]
        for h in s.handlers:
            if h.type is None:
                classes = (BaseException,)
            else:
                t = Ctx(self, fr, True).ev(h.type)
                classes = t if isinstance(t, tuple) else (t,)
            match = [x for x in raised if isinstance(x[1], classes)]
            raised = [x for x in raised if not isinstance(x[1], classes)]
            if not match:
                continue
            gh = b_or(*[x[0] for x in match])
            fr.locals = dict(join_env([(x[0], x[2]) for x in match]))
            if h.name:
                ev = UNDEF
                for (ge, e, _) in match:
                    ev = merge(ge, e, ev)
                fr.locals[h.name] = ev
            gh_out = self.block(h.body, fr, gh)
            parts.append((gh_out, fr.locals))
        fr.exc.extend(raised)
        if s.orelse:
            fr.locals = parts[0][1]
            g_else = self.block(s.orelse, fr, parts[0][0])
            parts[0] = (g_else, fr.locals)
        if s.finalbody:
            # the finally block runs on every way out: normal completion (here) and, conservatively, it is required to be free
            # of returns; exceptions/returns that leave the try keep their guards (their side effects in finally are applied too)
            if any(isinstance(n, (ast.Return, ast.Break, ast.Continue)) for st_ in s.finalbody for n in ast.walk(st_)):
                raise Unsupported('return/break inside finally')
            leaving = b_or(*([x[0] for x in fr.exc[len(saved):]] + [gr for gr, _ in fr.ret[getattr(self, '_ret_mark', len(fr.ret)):]]))
            fr.locals = join_env(parts)
            gall = b_or(*[gp for gp, _ in parts])
            gfin = self.block(s.finalbody, fr, b_or(gall, leaving) if leaving is not False else gall)
            return b_and(gall, gfin) if gfin is not gall else gall
        fr.locals = join_env(parts)
        return b_or(*[gp for gp, _ in parts])

    def st_FunctionDef(self, s, fr, c):
        fr.locals[s.name] = LocalFn(s, fr, [c.ev(d) for d in s.args.defaults])
        return c.g


# ------------------------------------------------------------------ expression context
class Ctx:
    def __init__(self, vm, fr, g):
        self.vm = vm
        self.fr = fr
        self.g = g

    def raise_(self, ge, exc):
        ge = self.vm.conc(b_and(self.g, ge))
        if ge is False:
            return
        self.fr.exc.append((ge, exc, self.fr.locals))
        self.g = b_and(self.g, b_not(ge))

    def absorb(self, excs):
        tot = False
        for (ge, e, _) in excs:
            if ge is False:
                continue
            self.fr.exc.append((ge, e, self.fr.locals))
            tot = b_or(tot, ge)
        self.g = b_and(self.g, b_not(tot))

    def sub(self, g):
        return Ctx(self.vm, self.fr, b_and(self.g, g))

    def truth(self, v):
        if isinstance(v, SBool):
            return v.e
        if isinstance(v, SChoice):
            return fold_b(v, self.truth)
        if isinstance(v, MList):
            return True if v.lo > 0 else (False if v.hi == 0 else v.len_gt(0))
        if isinstance(v, MSet):
            return b_or(*v.bits.values())
        if isinstance(v, MDict):
            return b_or(*v.present.values())
        if isinstance(v, MObj) and hasattr(v, 'base'):
            return b_or(*v.base.bits.values())
        if isinstance(v, HEAP):
            return True
        return bool(v)

    # ----- binding / assignment
    def bind_target(self, t, v):
        if isinstance(v, (MSet, MList)):
            v.fresh = False
        if isinstance(t, ast.Name):
            if t.id in getattr(self.fr, 'global_names', ()):
                key = (self.fr.globals.get('__name__'), t.id)
                old = self.vm.global_vals[key] if key in self.vm.global_vals else self.fr.globals.get(t.id, UNDEF)
                self.vm.global_vals[key] = merge(self.g, v, old)          # a guarded write to module state
                return
            self.fr.locals[t.id] = v
        elif isinstance(t, (ast.Tuple, ast.List)):
            stars = [i for i, x in enumerate(t.elts) if isinstance(x, ast.Starred)]
            if stars:
                if isinstance(v, MList) and v.lo != v.hi:
                    # list of symbolic length: only "a, b, *rest" (star last) is modelled
                    i = stars[0]
                    if i != len(t.elts) - 1:
                        raise Unsupported('starred unpacking of a symbolic-length list with targets after the star')
                    self.raise_(b_not(v.len_gt(i - 1)) if i > 0 else False, ValueError('not enough values to unpack'))
                    for k_, tt in enumerate(t.elts[:i]):
                        self.bind_target(tt, v.slots[k_] if k_ < len(v.slots) else None)
                    rest = MList(v.slots[i:v.hi])
                    rest.lo, rest.hi = max(0, v.lo - i), max(0, v.hi - i)
                    rest.len = fold(v.len, lambda n_: max(0, n_ - i))
                    rest.fresh = True
                    self.bind_target(t.elts[i].value, rest)
                    return
                if isinstance(v, MList):
                    seq = list(v.slots[:v.lo])
                elif isinstance(v, (tuple, list)):
                    seq = list(v)
                else:
                    try:
                        seq = list(to_native(v))
                    except NotConcrete:
                        raise Unsupported('starred unpacking of a symbolic sequence')
                i = stars[0]
                after = len(t.elts) - i - 1
                if len(seq) < len(t.elts) - 1:
                    self.raise_(True, ValueError('not enough values to unpack'))
                    return
                for tt, pv in zip(t.elts[:i], seq[:i]):
                    self.bind_target(tt, pv)
                mid = MList(seq[i:len(seq) - after])
                mid.fresh = True
                self.bind_target(t.elts[i].value, mid)
                for tt, pv in zip(t.elts[i + 1:], seq[len(seq) - after:]):
                    self.bind_target(tt, pv)
                return
            for tt, pv in zip(t.elts, self.unpack(v, len(t.elts))):
                self.bind_target(tt, pv)
        else:
            self.assign(t, v)

    def assign(self, t, v):
        if self.g is False:
            return
        if isinstance(t, (ast.Name, ast.Tuple, ast.List)):
            self.bind_target(t, v)
        elif isinstance(t, ast.Attribute):
            o = self.ev(t.value)
            for (ga, oa) in alts_of(o):
                gg = b_and(self.g, ga)
                if gg is False:
                    continue
                if not isinstance(oa, MObj):
                    raise Unsupported('setattr on %r' % (oa,))
                if t.attr not in oa.attrs:
                    oa.apres[t.attr] = gg              # the attribute exists only where this assignment ran (getattr default / hasattr look at it)
                elif t.attr in oa.apres:
                    oa.apres[t.attr] = b_or(oa.apres[t.attr], gg)
                    if oa.apres[t.attr] is True:
                        del oa.apres[t.attr]
                oa.attrs[t.attr] = merge(gg, v, oa.attrs.get(t.attr, UNDEF))
        elif isinstance(t, ast.Subscript):
            self.setitem(self.ev(t.value), self.ev(t.slice), v)
        else:
            raise Unsupported('assign %s' % type(t).__name__)

    def unpack(self, v, n):
        if isinstance(v, (tuple, list)) and len(v) == n:
            return list(v)
        if isinstance(v, MList) and v.lo == v.hi == n:
            return list(v.slots[:n])
        if isinstance(v, GSeq):
            ent = [(g, x) for g, x in v.entries if b_and(self.g, g) is not False]
            if len(ent) == n and all(b_and(self.g, b_not(g)) is False for g, _ in ent):
                return [x for _, x in ent]
            raise Unsupported('unpacking a generated sequence of symbolic length')
        if isinstance(v, MList) and (v.lo != n or v.hi != n):
            if v.lo == v.hi:
                self.raise_(True, ValueError('wrong number of values to unpack'))
                return [None] * n
        if isinstance(v, SChoice):
            parts = None
            for (ga, va) in reversed(v.alts):
                p = self.unpack(va, n)
                parts = p if parts is None else [merge(ga, x, y) for x, y in zip(p, parts)]
            return parts
        raise Unsupported('unpack %r' % (v,))

    # ----- containers
    def setitem(self, o, k, v):
        for (go, oa) in alts_of(o):
            for (gk, ka) in alts_of(k):
                gg = b_and(self.g, go, gk)
                if gg is False:
                    continue
                if isinstance(oa, MDict):
                    if ka not in oa.present:
                        oa.present[ka] = False
                        oa.vals[ka] = UNDEF
                        oa.order.append(ka)
                    old = oa.vals[ka]
                    if (isinstance(v, MList) and isinstance(old, MList) and getattr(v, 'fresh', False)
                            and b_and(gg, oa.present[ka]) is False):
                        for i in range(max(len(old.slots), len(v.slots))):
                            a = v.slots[i] if i < len(v.slots) else UNDEF
                            b = old.slots[i] if i < len(old.slots) else UNDEF
                            if i < len(old.slots):
                                old.slots[i] = merge(gg, a, b)
                            else:
                                old.slots.append(merge(gg, a, b))
                        old.len = merge(gg, v.len, old.len)
                        old.lo, old.hi = min(old.lo, v.lo), max(old.hi, v.hi)
                    elif (isinstance(v, MSet) and getattr(v, 'fresh', False) and isinstance(old, MSet)
                            and b_and(gg, oa.present[ka]) is False):
                        # fresh object stored where the old object is dead on these paths: merge in place
                        for kk in list(old.order) + [x for x in v.order if x not in old.bits]:
                            old.put(kk, b_ite(gg, v.get(kk), old.get(kk)))
                    else:
                        oa.vals[ka] = merge(gg, v, old)
                    oa.present[ka] = b_or(oa.present[ka], gg)
                elif isinstance(oa, dict):
                    if gg is True:
                        oa[ka] = v
                    else:
                        if ka not in oa:
                            raise Unsupported('guarded insert in concrete dict')
                        oa[ka] = merge(gg, v, oa[ka])
                elif isinstance(oa, list) and gg is True and isinstance(ka, int) and not isinstance(ka, bool):
                    oa[ka] = v           # a concrete native list written on every path: the write happens natively
                elif isinstance(oa, MList) and isinstance(ka, int) and not isinstance(ka, bool) and isinstance(oa.len, int) and -oa.len <= ka < oa.len:
                    i = ka if ka >= 0 else ka + oa.len        # list of known length, concrete index: a guarded write of one slot
                    oa.slots[i] = merge(gg, v, oa.slots[i])
                elif isinstance(oa, MList) and isinstance(ka, int) and not isinstance(ka, bool) and 0 <= ka < oa.lo:
                    oa.slots[ka] = merge(gg, v, oa.slots[ka])  # index below the least possible length
                else:
                    raise Unsupported('setitem on %r' % (oa,))

    def getitem(self, o, k):
        if self.g is False:
            return None
        def one(oa, ka, gg):
            if isinstance(oa, MDict):
                pres = oa.present.get(ka, False)
                self.raise_(b_and(gg, b_not(pres)), KeyError(ka))
                return oa.vals[ka] if pres is not False else UNDEF
            if isinstance(oa, MList):
                return self.list_index(oa, ka, gg)
            if isinstance(oa, (tuple, list, dict, str)) and not isinstance(ka, (SInt, SBool)):
                try:
                    return oa[ka]
                except (KeyError, IndexError) as ex:
                    self.raise_(gg, ex)
                    return UNDEF
            raise Unsupported('getitem %r[%r]' % (oa, ka))
        res = UNDEF
        oalts, kalts = alts_of(o), alts_of(k)
        for (go, oa) in reversed(oalts):
            for (gk, ka) in reversed(kalts):
                gg = b_and(go, gk)
                if b_and(self.g, gg) is False:
                    continue
                res = merge(gg, one(oa, ka, gg), res)
        return None if res is UNDEF else res

    def list_index(self, lst, k, gg):
        if isinstance(k, SInt):
            raise Unsupported('symbolic index')
        if lst.lo == lst.hi:
            n = lst.lo
            if not (-n <= k < n):
                self.raise_(gg, IndexError())
                return UNDEF
            return lst.slots[k]
        if k >= 0:
            self.raise_(b_and(gg, b_not(lst.len_gt(k))), IndexError())
            return lst.slots[k] if k < len(lst.slots) else UNDEF
        self.raise_(b_and(gg, b_not(lst.len_gt(-k - 1))), IndexError())
        res = UNDEF
        for n in range(lst.hi, max(lst.lo, -k) - 1, -1):
            res = merge(lst.len_is(n), lst.slots[n + k], res)
        return res

    def in_len(self, lst, i):
        if i < lst.lo:
            return True
        if i >= lst.hi:
            return False
        return lst.len_gt(i)

    def contains(self, o, k):
        def one(oa, ka):
            if isinstance(oa, MObj) and hasattr(oa, 'base'):
                oa = oa.base
            if isinstance(oa, MSet):
                return oa.get(ka)
            if isinstance(oa, MDict):
                return oa.present.get(ka, False)
            if isinstance(oa, KeysView):
                return oa.d.present.get(ka, False)
            if isinstance(oa, MList):
                return b_or(*[b_and(self.in_len(oa, i), self.eq(oa.slots[i], ka)) for i in range(oa.hi)])
            if isinstance(oa, MObj):
                return self.truth(self.call(self.getattr1(oa, '__contains__'), [ka], {}))     # user-defined __contains__
            return ka in oa
        if any(isinstance(oa, MObj) and not hasattr(oa, 'base') for _, oa in alts_of(o)):
            # user code runs: evaluate every pair of alternatives under its own guard
            r = self.call_each(o, lambda oa: self.call_each(k, lambda ka: mk_bool(one(oa, ka))))
            return self.truth(r)
        return fold_b(o, lambda oa: fold_b(k, lambda ka: one(oa, ka)))

    def eq(self, a, b):
        def one(va, vb):
            if isinstance(va, (SBool, bool)) and isinstance(vb, (SBool, bool)):
                return b_iff(as_b(va), as_b(vb))
            if isinstance(va, MSet) and isinstance(vb, MSet):
                keys = set(va.bits) | set(vb.bits)
                return b_and(*[b_iff(va.get(k), vb.get(k)) for k in keys])
            if isinstance(va, MDict) and isinstance(vb, MDict):
                keys = list(va.order) + [k for k in vb.order if k not in va.present]
                return b_and(*[b_and(b_iff(va.present.get(k, False), vb.present.get(k, False)),
                                     b_or(b_not(va.present.get(k, False)), self.eq(va.vals.get(k), vb.vals.get(k)))) for k in keys])
            if isinstance(va, MObj) and not isinstance(vb, HEAP) or isinstance(vb, MObj) and not isinstance(va, HEAP):
                return False
            if isinstance(va, MObj) and isinstance(vb, MObj):
                # user-defined __eq__ is dispatched by compare(); identity is the default
                return va is vb
            if isinstance(va, HEAP) or isinstance(vb, HEAP):
                return va is vb
            return bool(va == vb)
        return fold_b(a, lambda va: fold_b(b, lambda vb: one(va, vb)))

    # ----- iteration plans
    def iter_plan(self, it):
        if isinstance(it, MObj) and hasattr(it, 'base'):
            it = it.base
        if isinstance(it, SChoice):
            for (ga, va) in it.alts:
                for (ge, v) in self.iter_plan(va):
                    yield (b_and(ga, ge), v)
        elif isinstance(it, MSet):
            for k in it.keys_sorted():
                yield (it.bits[k], k)
        elif isinstance(it, (MDict, KeysView)):
            d = it.d if isinstance(it, KeysView) else it
            for k in list(d.order):
                yield (d.present[k], k)
        elif isinstance(it, ItemsView):
            for k in list(it.d.order):
                yield (it.d.present[k], (k, it.d.vals[k]))
        elif isinstance(it, ValuesView):
            for k in list(it.d.order):
                yield (it.d.present[k], it.d.vals[k])
        elif isinstance(it, GSeq):
            for e in it.entries:
                yield e
        elif isinstance(it, MList):
            i = 0
            while i < it.hi:
                yield (self.in_len(it, i), it.slots[i])
                i += 1
        elif isinstance(it, SetIter):
            for k in it.order:
                yield (it.rem[k], k)
        elif it is None:
            return    # poison value (an exception guard covers it)
        elif isinstance(it, (MObj, SBool, SInt)):
            raise Unsupported('iterate %r' % (it,))
        else:
            for v in it:
                yield (True, v)

    # ----- expressions
    def ev(self, e):
        return getattr(self, 'ex_' + type(e).__name__)(e)

    def ex_Constant(self, e):
        return e.value

    def ex__Lit(self, e):
        return e.v

    def ex_Name(self, e):
        f = self.fr
        if self.vm.global_vals:
            key = (f.globals.get('__name__'), e.id)
            if key in self.vm.global_vals and (e.id in getattr(f, 'global_names', ()) or not self.is_local_name(e.id)):
                return self.vm.global_vals[key]
        while f is not None:
            if e.id in f.locals:
                return f.locals[e.id]
            f = f.parent
        fr = self.fr
        if e.id in fr.closure:
            return fr.closure[e.id]
        if e.id in fr.globals:
            v = fr.globals[e.id]
            if isinstance(v, (dict, set, list, weakref.WeakKeyDictionary, weakref.WeakValueDictionary, weakref.WeakSet)) and \
                    fr.globals.get('__name__') in self.vm.mods:
                # a mutable module-level container of an interpreted module (a cache, a registry): it lives as long as the
                # process, so the run works on ONE shadow copy that persists across the calls of the harness
                key = (fr.globals.get('__name__'), e.id)
                if key not in self.vm.global_shadow:
                    if isinstance(v, (set, weakref.WeakSet)):
                        sh = MSet()
                        for x in list(v):
                            sh.put(x, True)
                    elif isinstance(v, list):
                        sh = MList(list(v))
                    else:
                        sh = MDict()
                        for k_, x in list(v.items()):
                            Ctx(self.vm, self.fr, True).setitem(sh, k_, x)
                    self.vm.global_shadow[key] = sh
                return self.vm.global_shadow[key]
            return v
        if hasattr(builtins, e.id):
            return getattr(builtins, e.id)
        raise Unsupported('name %s' % e.id)

    def is_local_name(self, name):
        f = self.fr
        while f is not None:
            if name in f.locals:
                return True
            f = f.parent
        return name in self.fr.closure

    def ex_Tuple(self, e):
        return tuple(self.ev(x) for x in e.elts)

    def ex_List(self, e):
        l = MList([self.ev(x) for x in e.elts])
        l.fresh = True
        return l

    def ex_Set(self, e):
        s = MSet()
        for x in e.elts:
            self.set_add(s, self.ev(x), True)
        return s

    def ex_Dict(self, e):
        d = MDict()
        for k, v in zip(e.keys, e.values):
            Ctx(self.vm, self.fr, True).setitem(d, self.ev(k), self.ev(v))
        return d

    def live(self, v):
        """drop alternatives that are dead under the current guard"""
        if not isinstance(v, (SChoice, SBool)):
            return v
        alts = [(ga, va) for (ga, va) in alts_of(v) if b_and(self.g, ga) is not False]
        if not alts:
            return None
        if len(alts) == 1:
            return alts[0][1]
        return SChoice(alts)

    def ex_Attribute(self, e):
        o = self.live(self.ev(e.value))
        return self.call_each(o, lambda oa: self.getattr1(oa, e.attr))

    def getattr1(self, o, name):
        if isinstance(o, MObj):
            if name in o.attrs:
                return o.attrs[name]
            if name == '__class__':
                return o.cls
            return self.class_attr(o.cls.__mro__, name, o)
        if isinstance(o, SuperProxy):
            if isinstance(o.obj, type):
                mro = o.obj.__mro__
                for c in mro[mro.index(o.cls) + 1:]:
                    if name in c.__dict__:
                        a = c.__dict__[name]
                        if c is object and name == '__new__':
                            return ObjectNew()
                        a = a.__func__ if isinstance(a, staticmethod) else a
                        return a
                raise Unsupported('super(cls) attr %s' % name)
            mro = o.obj.cls.__mro__
            return self.class_attr(mro[mro.index(o.cls) + 1:], name, o.obj)
        if isinstance(o, (MSet, MDict, MList)):
            return BuiltinMethod(o, name)
        if isinstance(o, type) and o.__module__ in self.vm.mods:
            key = (o, name)
            if key in self.vm.class_shadow:
                return self.vm.class_shadow[key]
            a = getattr(o, name)
            if isinstance(a, dict):
                d = MDict()
                for k, v in a.items():
                    Ctx(self.vm, self.fr, True).setitem(d, k, v)
                self.vm.class_shadow[key] = d
                return d
            return a
        try:
            return getattr(o, name)
        except AttributeError as ex:
            self.raise_(True, ex)          # e.g. a str method looked up on an int label: the code under test raises
            return None

    def class_attr(self, classes, name, obj):
        for c in classes:
            if c is set and hasattr(obj, 'base'):
                return BuiltinMethod(obj.base, name)
            if name in c.__dict__:
                a = c.__dict__[name]
                if isinstance(a, types.FunctionType):
                    return BoundMethod(a, obj)
                if isinstance(a, staticmethod):
                    return a.__func__
                return a
        raise Unsupported('attr %s on %r' % (name, obj))

    def ex_Subscript(self, e):
        if isinstance(e.slice, ast.Slice):
            o = self.ev(e.value)
            lo = self.ev(e.slice.lower) if e.slice.lower is not None else None
            hi = self.ev(e.slice.upper) if e.slice.upper is not None else None
            st = self.ev(e.slice.step) if e.slice.step is not None else None
            if any(is_symbolic(x) for x in (lo, hi, st)):
                raise Unsupported('symbolic slice bounds')
            if isinstance(o, MList):
                if o.lo != o.hi:
                    raise Unsupported('slice of a list of symbolic length')
                l = MList(o.slots[:o.lo][slice(lo, hi, st)])
                l.fresh = True
                return l
            if is_symbolic(o):
                raise Unsupported('slice of %r' % (o,))
            return o[slice(lo, hi, st)]
        return self.getitem(self.ev(e.value), self.ev(e.slice))

    def ex_Starred(self, e):
        raise Unsupported('starred expression')

    def ex_UnaryOp(self, e):
        v = self.ev(e.operand)
        if isinstance(e.op, ast.Not):
            return mk_bool(b_not(self.truth(v)))
        if isinstance(e.op, ast.USub):
            return fold(v, lambda x: -x)
        if isinstance(e.op, ast.Invert):
            def inv(x):
                if isinstance(x, MObj):
                    return self.call(self.getattr1(x, '__invert__'), [], {})
                if isinstance(x, (SBool, bool)):
                    raise Unsupported('~ on a bool')
                return ~x
            return self.call_each(v, inv)
        raise Unsupported('unary')

    def call_each(self, v, f):
        """apply f (which may run code and raise) to every alternative of v under its guard; merge the results"""
        alts = alts_of(v)
        if len(alts) == 1:
            return f(alts[0][1])
        saved = self.g
        res, lost = UNDEF, False
        for (ga, va) in reversed(alts):
            self.g = b_and(saved, ga)
            if self.g is False:
                continue
            before = self.g
            r = f(va)
            lost = b_or(lost, b_and(before, b_not(self.g)))
            res = merge(ga, r, res)
        self.g = b_and(saved, b_not(lost))
        return None if res is UNDEF else res

    def ex_BoolOp(self, e):
        saved = self.g
        is_and = isinstance(e.op, ast.And)
        acc = True if is_and else False
        last = acc
        lost = False
        for x in e.values:
            live = acc if is_and else b_not(acc)
            self.g = b_and(saved, b_not(lost), live)
            if self.g is False:
                break
            before = self.g
            last = self.ev(x)
            if not same_g(before, self.g):
                lost = b_or(lost, b_and(before, b_not(self.g)))
            t = self.vm.conc(self.truth(last))
            acc = b_and(acc, t) if is_and else b_or(acc, t)
        self.g = b_and(saved, b_not(lost))
        if is_c(acc) and not is_symbolic(last):
            return last
        return mk_bool(acc)

    def ex_Compare(self, e):
        left = self.ev(e.left)
        acc = True
        for op, rn in zip(e.ops, e.comparators):
            right = self.ev(rn)
            acc = b_and(acc, self.compare(op, left, right))
            left = right
        return mk_bool(acc)

    def compare(self, op, a, b):
        if isinstance(op, ast.In):
            return self.contains(b, a)
        if isinstance(op, ast.NotIn):
            return b_not(self.contains(b, a))
        if isinstance(op, ast.Is):
            return fold_b(a, lambda va: fold_b(b, lambda vb: va is vb))
        if isinstance(op, ast.IsNot):
            return fold_b(a, lambda va: fold_b(b, lambda vb: va is not vb))
        if isinstance(op, (ast.Eq, ast.NotEq)):
            d = self.user_eq(a, b, isinstance(op, ast.NotEq))
            if d is not None:
                return d
        if isinstance(op, ast.Eq):
            return self.eq(a, b)
        if isinstance(op, ast.NotEq):
            return b_not(self.eq(a, b))

        def setlike(v):
            return isinstance(v, (MSet, KeysView, set, frozenset)) or (isinstance(v, MObj) and hasattr(v, 'base'))

        def one(va, vb):
            x, y = va, vb
            if x is None or y is None:
                return False      # poison: an exception guard already covers this alternative
            if setlike(x) and setlike(y):
                # subset comparisons of sets
                sx, sy = self.to_mset(x), self.to_mset(y)
                keys = list(sx.order) + [k for k in sy.order if k not in sx.bits]
                sub = b_and(*[b_or(b_not(sx.get(k)), sy.get(k)) for k in keys])       # x <= y
                sup = b_and(*[b_or(b_not(sy.get(k)), sx.get(k)) for k in keys])       # x >= y
                if isinstance(op, ast.LtE):
                    return sub
                if isinstance(op, ast.GtE):
                    return sup
                if isinstance(op, ast.Lt):
                    return b_and(sub, b_not(sup))
                return b_and(sup, b_not(sub))
            r = {ast.Lt: lambda: x < y, ast.LtE: lambda: x <= y,
                 ast.Gt: lambda: x > y, ast.GtE: lambda: x >= y}[type(op)]()
            return bool(r)
        return fold_b(a, lambda va: fold_b(b, lambda vb: one(va, vb)))

    def user_eq(self, a, b, negate):
        """== / != where the left operand is an instance of a repository class defining __eq__ / __ne__"""
        def has(x, name):
            if not isinstance(x, MObj):
                return None
            for c in x.cls.__mro__:
                if name in c.__dict__ and isinstance(c.__dict__[name], types.FunctionType):
                    return c.__dict__[name]
            return None
        alts = alts_of(a)
        if not any(has(x, '__eq__') or has(x, '__ne__') for _, x in alts):
            return None

        def one(x):
            fn = has(x, '__ne__') if negate else None
            if fn is not None:
                return self.truth(self.call(fn, [x, b], {}))
            fn = has(x, '__eq__')
            if fn is not None:
                r = self.truth(self.call(fn, [x, b], {}))
                return b_not(r) if negate else r
            r = self.eq(x, b)
            return b_not(r) if negate else r
        res = False
        saved = self.g
        lost = False
        for (ga, x) in alts:
            self.g = b_and(saved, ga)
            if self.g is False:
                continue
            before = self.g
            r = one(x)
            lost = b_or(lost, b_and(before, b_not(self.g)))
            res = b_or(res, b_and(ga, r))
        self.g = b_and(saved, b_not(lost))
        return res

    def ex_BinOp(self, e):
        return self.binop(e.op, self.ev(e.left), self.ev(e.right))

    def binop(self, op, a, b):
        a, b = self.live(a), self.live(b)
        if isinstance(a, SChoice) or isinstance(b, SChoice):
            if all(isinstance(x, (MSet, KeysView)) for _, x in alts_of(a) + alts_of(b)):
                return self.set_binop(op, self.flatten_set(a), self.flatten_set(b))
            # operands are guarded unions: the operation (which may run code and raise) is evaluated once per pair of
            # alternatives UNDER THAT PAIR'S GUARD, so that exceptions are attributed to the right inputs
            return self.call_each(a, lambda va: self.call_each(b, lambda vb: self.binop(op, va, vb)))
        dunder = {ast.BitOr: ('__or__', '__ror__'), ast.BitAnd: ('__and__', '__rand__')}.get(type(op))
        if dunder and isinstance(a, MObj):
            return self.call(self.getattr1(a, dunder[0]), [b], {})
        if dunder and isinstance(b, MObj):
            return self.call(self.getattr1(b, dunder[1]), [a], {})
        if isinstance(a, (MSet, KeysView)) or isinstance(b, (MSet, KeysView)):
            return self.set_binop(op, a, b)
        if isinstance(a, (SBool,)) or isinstance(b, (SBool,)):
            if isinstance(op, ast.BitXor):
                return mk_bool(b_xor(as_b(a), as_b(b)))
            raise Unsupported('bool binop')
        if isinstance(a, str) and isinstance(op, (ast.Add, ast.Mod)) and (is_symbolic(b) or a == FMT):
            return FMT
        if isinstance(b, str) and isinstance(op, ast.Add) and (is_symbolic(a) or b == FMT):
            return FMT
        import operator
        if isinstance(a, MList) and isinstance(b, MList) and isinstance(op, ast.Add) and a.lo == a.hi and b.lo == b.hi:
            l = MList(a.slots[:a.lo] + b.slots[:b.lo])
            l.fresh = True
            return l
        if isinstance(a, MList) and isinstance(b, int) and isinstance(op, ast.Mult) and a.lo == a.hi:
            l = MList(a.slots[:a.lo] * b)
            l.fresh = True
            return l
        f = {ast.Add: operator.add, ast.Sub: operator.sub, ast.Mod: operator.mod, ast.BitAnd: operator.and_,
             ast.BitOr: operator.or_, ast.BitXor: operator.xor, ast.Mult: operator.mul, ast.FloorDiv: operator.floordiv,
             ast.Div: operator.truediv, ast.Pow: operator.pow, ast.LShift: operator.lshift, ast.RShift: operator.rshift}[type(op)]
        if is_symbolic(a) or is_symbolic(b):
            try:
                return from_native(f(to_native(a), to_native(b)))
            except NotConcrete:
                raise Unsupported('operator %s on symbolic operands' % type(op).__name__)
        try:
            return f(a, b)
        except (ZeroDivisionError, TypeError) as ex:
            self.raise_(True, ex)
            return None

    def flatten_set(self, x):
        if not isinstance(x, SChoice):
            return self.to_mset(x)
        r = MSet()
        sets = [(g, self.to_mset(a)) for g, a in x.alts]
        keys = []
        for _, s in sets:
            for k in s.order:
                if k not in keys:
                    keys.append(k)
        for k in keys:
            r.put(k, fold_b(SChoice(sets), lambda s: s.get(k)))
        return r

    def to_mset(self, x):
        if isinstance(x, MObj) and hasattr(x, 'base'):
            return x.base
        if isinstance(x, MSet):
            return x
        s = MSet()
        if isinstance(x, KeysView):
            for k in x.d.order:
                s.put(k, x.d.present[k])
            return s
        if isinstance(x, (set, frozenset)):
            for k in x:
                s.put(k, True)
            return s
        if x is None:
            return s       # poison value: an exception guard already covers this alternative
        raise Unsupported('to_mset %r' % (x,))

    def set_binop(self, op, a, b):
        a, b = self.to_mset(a), self.to_mset(b)
        r = MSet()
        for k in list(a.order) + [k for k in b.order if k not in a.bits]:
            x, y = a.get(k), b.get(k)
            if isinstance(op, ast.BitAnd):
                v = b_and(x, y)
            elif isinstance(op, ast.BitOr):
                v = b_or(x, y)
            elif isinstance(op, ast.Sub):
                v = b_and(x, b_not(y))
            elif isinstance(op, ast.BitXor):
                v = b_xor(x, y)
            else:
                raise Unsupported('set op')
            r.put(k, v)
        return r

    def ex_IfExp(self, e):
        cnd = self.vm.conc(self.truth(self.ev(e.test)))
        if cnd is True:
            return self.ev(e.body)
        if cnd is False:
            return self.ev(e.orelse)
        saved = self.g
        self.g = b_and(saved, cnd)
        a = self.ev(e.body)
        self.g = b_and(saved, b_not(cnd))
        b = self.ev(e.orelse)
        self.g = saved
        return merge(cnd, a, b)

    def ex_Lambda(self, e):
        return LocalFn(e, self.fr)

    def ex_JoinedStr(self, e):
        parts = []
        for v in e.values:
            if isinstance(v, ast.Constant):
                parts.append(str(v.value))
                continue
            x = self.ev(v.value)
            if is_symbolic(x) or x == FMT:
                return FMT        # a message built from symbolic values: never the subject of a property
            conv = {-1: format, 115: lambda a, f_: format(str(a), f_), 114: lambda a, f_: format(repr(a), f_), 97: lambda a, f_: format(ascii(a), f_)}[v.conversion]
            spec = ''
            if v.format_spec is not None:
                spec = self.ex_JoinedStr(v.format_spec)
                if spec == FMT:
                    return FMT
            parts.append(conv(x, spec))
        return ''.join(parts)

    def ex_FormattedValue(self, e):
        return self.ex_JoinedStr(ast.JoinedStr(values=[e]))

    def ex_ListComp(self, e):
        return self.comp(e, 'list')

    def ex_SetComp(self, e):
        return self.comp(e, 'set')

    def ex_GeneratorExp(self, e):
        return self.comp(e, 'gen')

    def ex_DictComp(self, e):
        return self.comp(e, 'dict')

    def comp(self, e, kind):
        """comprehensions / generator expressions, evaluated eagerly and IN ORDER: an element whose evaluation raises removes
        those inputs from everything that follows (as the aborted comprehension would), and from the enclosing path"""
        entries = []
        sub = Frame(self.fr.name + '<comp>', self.fr.globals, self.fr.closure, self.fr)
        sub.exc = self.fr.exc
        start = self.g
        st = {'lost': False}

        def alive(g):
            return b_and(g, b_not(st['lost'])) if st['lost'] is not False else g

        def run(c, f):
            before = c.g
            r = f()
            if c.g is not before:
                st['lost'] = b_or(st['lost'], b_and(before, b_not(c.g)))
            return r

        def rec(gi, gens):
            gi = alive(gi)
            if gi is False:
                return
            if not gens:
                c = Ctx(self.vm, sub, gi)
                v = run(c, lambda: (c.ev(e.key), c.ev(e.value)) if kind == 'dict' else c.ev(e.elt))
                if c.g is not False:
                    entries.append((c.g, v))
                return
            gen = gens[0]
            c = Ctx(self.vm, sub, gi)
            it = run(c, lambda: c.ev(gen.iter))
            for (ge, val) in c.iter_plan(it):
                g2 = alive(b_and(c.g, self.vm.conc(ge)))
                if g2 is False:
                    continue
                c2 = Ctx(self.vm, sub, g2)
                run(c2, lambda: c2.bind_target(gen.target, val))
                gg = c2.g
                for cond in gen.ifs:
                    c3 = Ctx(self.vm, sub, gg)
                    t = run(c3, lambda: self.vm.conc(c3.truth(c3.ev(cond))))
                    gg = b_and(c3.g, t)
                if gg is not False:
                    rec(gg, gens[1:])

        rec(self.g, e.generators)
        if st['lost'] is not False:
            # (generator expressions too: they are evaluated eagerly, so an element that raises ends the enclosing path here -
            #  exact when the generator is consumed completely, which is what the interpreted code does)
            self.g = b_and(self.g, b_not(st['lost']))
        if kind == 'gen':
            return GSeq(entries)
        if kind == 'list':
            # entries present on every remaining input of this path form an ordinary list
            if all(b_and(self.g, b_not(g)) is False for g, _ in entries):
                l = MList([v for _, v in entries])
                l.fresh = True
                return l
            return GSeq(entries)
        if kind == 'set':
            s = MSet()
            for (g, v) in entries:
                self.set_add(s, v, g)
            return s
        d = MDict()
        for (g, (k, v)) in entries:
            Ctx(self.vm, self.fr, g).setitem(d, k, v)
        return d

    def set_add(self, s, v, g):
        for (gv, va) in alts_of(v):
            gg = b_and(g, gv)
            if gg is not False:
                s.put(va, b_or(s.get(va), gg))

    # ----- calls
    def ex_Call(self, e):
        fn = self.ev(e.func)
        if (isinstance(fn, BuiltinMethod) and isinstance(fn.obj, MSet) and fn.name in ('union', 'update') and len(e.args) == 1
                and isinstance(e.args[0], ast.Starred) and not e.keywords):
            # S.union(*seq) / S.update(*seq) with a sequence of symbolic length: every operand contributes under its guard
            seq = self.ev(e.args[0].value)
            tgt = fn.obj
            if fn.name == 'union':
                tgt = fn.obj.copy()
                tgt.fresh = True
            for (ge, v) in self.iter_plan(seq):
                gg = b_and(self.g, ge)
                if gg is False:
                    continue
                for (gm, x) in self.iter_plan(v):
                    self.set_add(tgt, x, b_and(gg, gm))
            return tgt if fn.name == 'union' else None
        args = []
        for a in e.args:
            if isinstance(a, ast.Starred):
                v = self.ev(a.value)
                if isinstance(v, MList):
                    if v.lo != v.hi:
                        raise Unsupported('*args from a list of symbolic length')
                    args.extend(v.slots[:v.lo])
                elif isinstance(v, GSeq):
                    ent = [(g, x) for g, x in v.entries if b_and(self.g, g) is not False]
                    if not all(b_and(self.g, b_not(g)) is False for g, _ in ent):
                        raise Unsupported('*args from a generated sequence of symbolic length')
                    args.extend(x for _, x in ent)
                elif isinstance(v, (MSet, MDict, KeysView, ValuesView, ItemsView)):
                    try:
                        args.extend(list(to_native(v)) if not isinstance(v, MSet) else [k for k in v.keys_sorted() if v.bits[k] is True and all(is_c(b) for b in v.bits.values())])
                    except NotConcrete:
                        raise Unsupported('*args from a symbolic collection')
                else:
                    args.extend(list(v))
            else:
                args.append(self.ev(a))
        kwargs = {k.arg: self.ev(k.value) for k in e.keywords}
        return self.call(fn, args, kwargs)

    def call(self, fn, args, kwargs):
        vm = self.vm
        if self.g is False:
            return None
        if isinstance(fn, SChoice):
            saved = self.g
            res, lost = UNDEF, False
            for (ga, fa) in reversed(fn.alts):
                self.g = b_and(saved, ga)
                if self.g is False:
                    continue
                before = self.g
                v = self.call(fa, args, kwargs)
                lost = b_or(lost, b_and(before, b_not(self.g)))
                res = merge(ga, v, res)
            self.g = b_and(saved, b_not(lost))
            return res
        if isinstance(fn, ObjectNew):
            return MObj(args[0])
        if isinstance(fn, WeakRefModel):
            return fn.obj
        if isinstance(fn, BoundMethod):
            return self.call(fn.fn, [fn.obj] + list(args), kwargs)
        if isinstance(fn, BuiltinMethod):
            return builtin_method(self, fn.obj, fn.name, args, kwargs)
        if isinstance(fn, LocalFn):
            node = fn.node
            fr = Frame('<local>', fn.frame.globals, fn.frame.closure, fn.frame)
            if isinstance(node, ast.Lambda):
                ldef = [Ctx(vm, fn.frame, True).ev(d) for d in node.args.defaults]
                vm.bind(node.args, ldef, fr, args, kwargs)
                c = Ctx(vm, fr, self.g)
                v = c.ev(node.body)
                self.absorb(fr.exc)
                return v
            vm.bind(node.args, fn.defaults, fr, args, kwargs)
            gen = has_yield(node)
            val, excs = vm.run_body(node, fr, self.g, gen)
            self.absorb(excs)
            return val
        if isinstance(fn, types.MethodType) and vm.interp(fn.__func__):
            return self.call(fn.__func__, [fn.__self__] + list(args), kwargs)
        if vm.interp(fn):
            val, excs = vm.call_function(fn, args, kwargs, self.g)
            self.absorb(excs)
            return val
        if isinstance(fn, type) and fn.__module__ in vm.mods and not issubclass(fn, BaseException):
            for c in fn.__mro__:
                if '__new__' in c.__dict__ and c is not object:
                    new = c.__dict__['__new__']
                    new = new.__func__ if isinstance(new, staticmethod) else new
                    if isinstance(new, types.FunctionType):
                        made = self.call(new, [fn] + list(args), kwargs)
                        # Python then runs type(obj).__init__ on the result if it is an instance of the class called
                        for (ga, oa) in alts_of(made):
                            if isinstance(oa, MObj) and issubclass(oa.cls, fn):
                                for c2 in oa.cls.__mro__:
                                    if '__init__' in c2.__dict__:
                                        if isinstance(c2.__dict__['__init__'], types.FunctionType):
                                            saved = self.g
                                            self.g = b_and(saved, ga)
                                            if self.g is not False:
                                                self.call(c2.__dict__['__init__'], [oa] + list(args), kwargs)
                                            self.g = b_and(saved, b_or(b_not(ga), self.g))
                                        break
                        return made
                    break
            obj = MObj(fn)
            if issubclass(fn, set):
                obj.base = MSet()
            for c in fn.__mro__:
                if '__init__' in c.__dict__:
                    if isinstance(c.__dict__['__init__'], types.FunctionType):
                        self.call(c.__dict__['__init__'], [obj] + list(args), kwargs)
                    break
            return obj
        if fn in MODELS:
            return MODELS[fn](self, *args, **kwargs)
        if getattr(fn, '__name__', None) == 'format' and isinstance(getattr(fn, '__self__', None), str):
            if any(is_symbolic(a) or a == FMT for a in args) or any(is_symbolic(a) for a in kwargs.values()):
                return FMT       # message built from symbolic values: never the subject of a property
            return fn(*args, **kwargs)
        if any(isinstance(a, SChoice) for a in args) and not kwargs and \
                all((not is_symbolic(a)) or (isinstance(a, SChoice) and not any(is_symbolic(v) for _, v in a.alts)) for a in args):
            # guarded union of concrete values: the native function is applied to every alternative
            import itertools as _it
            saved = self.g
            res, lost = UNDEF, False
            for combo in _it.product(*[alts_of(a) for a in args]):
                gc = b_and(*[g_ for g_, _ in combo])
                self.g = b_and(saved, gc)
                if self.g is False:
                    continue
                before = self.g
                v = self.call(fn, [v_ for _, v_ in combo], {})
                lost = b_or(lost, b_and(before, b_not(self.g)))
                res = merge(gc, v, res)
            self.g = b_and(saved, b_not(lost))
            return None if res is UNDEF else res
        if any(is_symbolic(a) for a in args) or any(is_symbolic(a) for a in kwargs.values()):
            # arguments that are model containers without any symbolic guard are handed over as plain Python values
            try:
                nargs = [to_native(a) for a in args]
                nkw = {k: to_native(v) for k, v in kwargs.items()}
            except NotConcrete:
                raise Unsupported('native call %r with symbolic args' % (fn,))
            if any(isinstance(a, (LocalFn, BoundMethod)) for a in list(args) + list(kwargs.values())):
                raise Unsupported('native call %r with an interpreted callable' % (fn,))
            try:
                return from_native(fn(*nargs, **nkw))
            except Exception as ex:
                self.raise_(True, ex)
                return None
        try:
            return fn(*args, **kwargs)
        except Exception as ex:
            self.raise_(True, ex)
            return None


# ------------------------------------------------------------------ builtin methods / models
def list_append(ctx, lst, v):
    g = ctx.g
    if g is False:
        return
    if g is True and lst.lo == lst.hi:
        lst.slots = lst.slots[:lst.lo] + [v]
        lst.lo += 1
        lst.hi += 1
        lst.len = lst.lo
        return
    while len(lst.slots) < lst.hi + 1:
        lst.slots.append(UNDEF)
    for k in range(lst.lo, lst.hi + 1):
        cond = g if lst.lo == lst.hi else b_and(g, lst.len_is(k))
        lst.slots[k] = merge(cond, v, lst.slots[k])
    lst.len = merge(g, fold(lst.len, lambda n: n + 1), lst.len)
    lst.hi += 1
    if g is True:
        lst.lo += 1


def list_pop(ctx, lst):
    if lst.hi == 0:
        ctx.raise_(True, IndexError('pop from empty list'))
        return None
    if lst.lo == 0:
        ctx.raise_(lst.len_is(0), IndexError('pop from empty list'))
    g = ctx.g
    if lst.lo == lst.hi:
        res = lst.slots[lst.lo - 1]
    else:
        res = UNDEF
        for n in range(lst.hi, max(lst.lo, 1) - 1, -1):
            res = merge(lst.len_is(n), lst.slots[n - 1], res)
    if g is True and lst.lo == lst.hi:
        lst.lo -= 1
        lst.hi -= 1
        lst.len = lst.lo
        lst.slots = lst.slots[:lst.lo]
    else:
        lst.len = merge(g, fold(lst.len, lambda n: n - 1), lst.len)
        lst.lo = max(0, lst.lo - 1)
    return res


def list_pop_at(ctx, lst, k):
    """lst.pop(k) for a concrete index k >= 0: IndexError when len <= k, otherwise the slots above k shift down"""
    if lst.hi <= k:
        ctx.raise_(True, IndexError('pop index out of range'))
        return None
    if lst.lo <= k:
        ctx.raise_(b_not(lst.len_gt(k)), IndexError('pop index out of range'))
    g = ctx.g
    res = lst.slots[k]
    new_slots = list(lst.slots)
    for i in range(k, lst.hi - 1):
        new_slots[i] = merge(g, lst.slots[i + 1], lst.slots[i]) if g is not True else lst.slots[i + 1]
    if g is True and lst.lo == lst.hi:
        lst.slots = new_slots[:lst.hi - 1]
        lst.lo -= 1
        lst.hi -= 1
        lst.len = lst.lo
    else:
        lst.slots = new_slots
        lst.len = merge(g, fold(lst.len, lambda n_: n_ - 1), lst.len)
        lst.lo = max(0, lst.lo - 1)
    return res


class NotConcrete(Exception):
    pass


def to_native(v, depth=0):
    """plain Python value of a model value all of whose guards are constants (raises NotConcrete otherwise)"""
    if depth > 6:
        raise NotConcrete()
    if isinstance(v, MList):
        if v.lo != v.hi:
            raise NotConcrete()
        return [to_native(x, depth + 1) for x in v.slots[:v.lo]]
    if isinstance(v, MSet):
        if not all(is_c(b) for b in v.bits.values()):
            raise NotConcrete()
        return set(to_native(k, depth + 1) for k in v.order if v.bits[k] is True)
    if isinstance(v, MDict):
        if not all(is_c(b) for b in v.present.values()):
            raise NotConcrete()
        return {k: to_native(v.vals[k], depth + 1) for k in v.order if v.present[k] is True}
    if isinstance(v, GSeq):
        if not all(is_c(g) for g, _ in v.entries):
            raise NotConcrete()
        return [to_native(x, depth + 1) for g, x in v.entries if g is True]
    if isinstance(v, (KeysView, ValuesView, ItemsView)):
        d = to_native(v.d, depth + 1)
        return list(d.keys() if isinstance(v, KeysView) else d.values() if isinstance(v, ValuesView) else d.items())
    if isinstance(v, tuple):
        return tuple(to_native(x, depth + 1) for x in v)
    if isinstance(v, list):
        return [to_native(x, depth + 1) for x in v]
    if isinstance(v, (SBool, SInt, SChoice, LocalFn, BoundMethod, BuiltinMethod, SetIter, ListIter, WeakRefModel)):
        raise NotConcrete()
    if isinstance(v, MObj):
        return v                 # identity-hashed heap object: usable as an opaque value (dict key, set member)
    return v


def from_native(r, depth=0):
    if depth > 6:
        return r
    if isinstance(r, list):
        l = MList([from_native(x, depth + 1) for x in r])
        l.fresh = True
        return l
    if isinstance(r, (set, frozenset)) and not isinstance(r, MSet):
        m = MSet()
        m.fresh = True
        for x in r:
            m.put(x, True)
        return m
    if isinstance(r, dict):
        d = MDict()
        for k, x in r.items():
            d.present[k] = True
            d.vals[k] = from_native(x, depth + 1)
            d.order.append(k)
        return d
    if isinstance(r, tuple):
        return tuple(from_native(x, depth + 1) for x in r)
    return r


class DequeModel(MList):
    pass


def builtin_method(ctx, o, n, args, kwargs):
    g = ctx.g
    if isinstance(o, MSet):
        if n == 'add':
            ctx.set_add(o, args[0], g)
            return None
        if n == 'update':
            for (ge, v) in ctx.iter_plan(args[0]):
                ctx.set_add(o, v, b_and(g, ge))
            return None
        if n == 'copy':
            return o.copy()
        if n == '__init__':
            if args:
                for (ge, v) in ctx.iter_plan(args[0]):
                    ctx.set_add(o, v, b_and(g, ge))
            return None
        if n in ('__or__', '__and__', '__sub__'):
            return ctx.set_binop({'__or__': ast.BitOr(), '__and__': ast.BitAnd(), '__sub__': ast.Sub()}[n], o, args[0])
        if n == '__iter__':
            return SetIter(o.bits, o.keys_sorted())
        if n in ('union', 'intersection', 'difference', 'symmetric_difference'):
            res = o.copy()
            res.fresh = True
            for a in args:
                other = ctx.to_mset(ctx.flatten_set(a) if isinstance(a, SChoice) else (m_set(ctx, a) if not isinstance(a, (MSet, KeysView, set, frozenset)) else a))
                new_ = MSet()
                for k in list(res.order) + [k for k in other.order if k not in res.bits]:
                    x, y = res.get(k), other.get(k)
                    new_.put(k, {'union': b_or(x, y), 'intersection': b_and(x, y), 'difference': b_and(x, b_not(y)), 'symmetric_difference': b_xor(x, y)}[n])
                res = new_
                res.fresh = True
            return res
        if n in ('difference_update', 'intersection_update', 'symmetric_difference_update'):
            for a in args:
                other = ctx.to_mset(m_set(ctx, a) if not isinstance(a, (MSet, KeysView, set, frozenset)) else a)
                for k in list(o.order) + [k for k in other.order if k not in o.bits]:
                    x, y = o.get(k), other.get(k)
                    v = {'difference_update': b_and(x, b_not(y)), 'intersection_update': b_and(x, y), 'symmetric_difference_update': b_xor(x, y)}[n]
                    o.put(k, b_ite(g, v, x))
            return None
        if n in ('discard', 'remove'):
            for (gv, va) in alts_of(args[0]):
                gg = b_and(g, gv)
                if n == 'remove':
                    ctx.raise_(b_and(gv, b_not(o.get(va))), KeyError(va))
                    gg = b_and(ctx.g, gv)
                if va in o.bits:
                    o.put(va, b_and(o.get(va), b_not(gg)))
            return None
        if n == 'clear':
            for k in list(o.order):
                o.put(k, b_and(o.get(k), b_not(g)))
            return None
        if n == 'pop':
            it = SetIter(o.bits, o.keys_sorted())
            v = m_next(ctx, it)
            for (ge_, e_, _) in list(ctx.fr.exc):
                pass
            for (gv, va) in alts_of(v):
                if va is not None and va in o.bits:
                    o.put(va, b_and(o.get(va), b_not(b_and(ctx.g, gv))))
            return v
        if n in ('issubset', 'issuperset', 'isdisjoint'):
            other = ctx.to_mset(m_set(ctx, args[0]) if not isinstance(args[0], (MSet, KeysView, set, frozenset)) else args[0])
            keys = list(o.order) + [k for k in other.order if k not in o.bits]
            if n == 'issubset':
                return mk_bool(b_and(*[b_or(b_not(o.get(k)), other.get(k)) for k in keys]))
            if n == 'issuperset':
                return mk_bool(b_and(*[b_or(b_not(other.get(k)), o.get(k)) for k in keys]))
            return mk_bool(b_not(b_or(*[b_and(o.get(k), other.get(k)) for k in keys])))
    if isinstance(o, MDict):
        if n == 'pop':
            k = args[0]
            res = UNDEF
            for (gk, ka) in reversed(alts_of(k)):
                pres = o.present.get(ka, False)
                if len(args) > 1:
                    v = merge(pres, o.vals[ka], args[1]) if pres is not False else args[1]
                else:
                    ctx.raise_(b_and(gk, b_not(pres)), KeyError(ka))
                    v = o.vals[ka] if pres is not False else UNDEF
                if ka in o.present:
                    o.present[ka] = b_and(o.present[ka], b_not(b_and(ctx.g, gk)))
                res = merge(gk, v, res)
            return None if res is UNDEF else res
        if n == 'update':
            for a in args:
                if isinstance(a, MDict):
                    for k in list(a.order):
                        sub = ctx.sub(a.present[k])
                        if sub.g is not False:
                            sub.setitem(o, k, a.vals[k])
                elif isinstance(a, dict):
                    for k, v in a.items():
                        ctx.setitem(o, k, from_native(v) if not is_symbolic(v) else v)
                else:
                    for (ge, kv) in ctx.iter_plan(a):
                        kk, vv = ctx.unpack(kv, 2)
                        ctx.sub(ge).setitem(o, kk, vv)
            for k, v in kwargs.items():
                ctx.setitem(o, k, v)
            return None
        if n == 'clear':
            for k in list(o.order):
                o.present[k] = b_and(o.present[k], b_not(g))
            return None
        if n == 'copy':
            d = MDict()
            d.present, d.vals, d.order = dict(o.present), dict(o.vals), list(o.order)
            return d
        if n == '__contains__':
            return mk_bool(ctx.contains(o, args[0]))
        if n == 'get':
            k = args[0]
            dflt = args[1] if len(args) > 1 else None
            res = UNDEF
            for (gk, ka) in reversed(alts_of(k)):
                pres = o.present.get(ka, False)
                v = merge(pres, o.vals[ka], dflt) if pres is not False else dflt
                res = merge(gk, v, res)
            return None if res is UNDEF else res
        if n == 'setdefault':
            k = args[0]
            dflt = args[1] if len(args) > 1 else None
            res = UNDEF
            for (gk, ka) in reversed(alts_of(k)):
                pres = o.present.get(ka, False)
                sub = ctx.sub(b_and(gk, b_not(pres)))
                if sub.g is not False:
                    sub.setitem(o, ka, dflt)
                res = merge(gk, o.vals.get(ka, UNDEF), res)
            return None if res is UNDEF else res
        if n == 'keys':
            return KeysView(o)
        if n == 'items':
            return ItemsView(o)
        if n == 'values':
            return ValuesView(o)
    if isinstance(o, MList):
        if n == 'append':
            list_append(ctx, o, args[0])
            return None
        if n == 'extend':
            for (ge, v) in list(ctx.iter_plan(args[0])):
                list_append(ctx.sub(ge), o, v)
            return None
        if n == 'pop' and not args:
            return list_pop(ctx, o)
        if n == 'pop' and len(args) == 1 and isinstance(args[0], int) and not isinstance(args[0], bool) and args[0] >= 0:
            return list_pop_at(ctx, o, args[0])
        if n == '__iter__':
            return ListIter(o)
        if n == 'popleft':
            return list_pop_at(ctx, o, 0)
        if n in ('insert', 'appendleft', 'remove', 'index', 'count', 'reverse', 'sort', 'copy', 'clear', 'extendleft', 'rotate'):
            # positional list surgery is only modelled for lists of known length on a path that is certainly taken
            if o.lo != o.hi or g is not True:
                raise Unsupported('list.%s on a list of symbolic length / under a symbolic guard' % n)
            cur = o.slots[:o.lo]
            if n in ('insert', 'appendleft'):
                i = args[0] if n == 'insert' else 0
                v = args[1] if n == 'insert' else args[0]
                if not isinstance(i, int):
                    raise Unsupported('symbolic insert position')
                cur.insert(i, v)
            elif n == 'reverse':
                cur.reverse()
            elif n == 'clear':
                cur = []
            elif n == 'copy':
                l2 = MList(cur)
                l2.fresh = True
                return l2
            else:
                try:
                    nat = to_native(o)
                    nat_args = [to_native(a) for a in args]
                except NotConcrete:
                    raise Unsupported('list.%s with symbolic elements' % n)
                if n in ('index', 'count'):
                    try:
                        return getattr(nat, n)(*nat_args)
                    except ValueError as ex:
                        ctx.raise_(True, ex)
                        return None
                if n == 'sort':
                    key = kwargs.get('key')
                    if key is not None:
                        ks = [ctx.call(key, [x], {}) for x in cur]
                        if any(is_symbolic(k_) for k_ in ks):
                            raise Unsupported('sort with symbolic keys')
                        order = sorted(range(len(cur)), key=lambda i_: ks[i_], reverse=bool(kwargs.get('reverse')))
                    else:
                        order = sorted(range(len(cur)), key=lambda i_: nat[i_], reverse=bool(kwargs.get('reverse')))
                    cur = [cur[i_] for i_ in order]
                elif n == 'remove':
                    try:
                        i = nat.index(nat_args[0])
                    except ValueError as ex:
                        ctx.raise_(True, ex)
                        return None
                    del cur[i]
                else:
                    raise Unsupported('list.%s' % n)
            o.slots = cur
            o.lo = o.hi = o.len = len(cur)
            return None
    raise Unsupported('method %s on %s' % (n, type(o).__name__))


def m_set(ctx, it=None):
    s = MSet()
    s.fresh = True
    if it is not None:
        for (ge, v) in ctx.iter_plan(it):
            ctx.set_add(s, v, ge)
    return s


def m_frozenset(ctx, it=None):
    if it is None:
        return frozenset()
    try:
        return frozenset(to_native(it) if is_symbolic(it) else it)      # hashable, usable as a key
    except (NotConcrete, TypeError):
        return m_set(ctx, it)


def m_dict(ctx, *a, **kw):
    d = MDict()
    if a and a[0] is not None:
        builtin_method(ctx, d, 'update', [a[0]], {})
    for k, v in kw.items():
        ctx.setitem(d, k, v)
    return d


def m_list(ctx, it=None):
    if it is None:
        return MList()
    plan = list(ctx.iter_plan(it))
    if all(g is True for g, _ in plan):
        return MList([v for _, v in plan])
    lst = MList()
    for (ge, v) in plan:
        list_append(Ctx(ctx.vm, ctx.fr, ge), lst, v)
    return lst


def m_len(ctx, o):
    def one(oa):
        if isinstance(oa, MList):
            return oa.len
        if isinstance(oa, MSet):
            return count_bits(list(oa.bits.values()))
        if isinstance(oa, MDict):
            return count_bits(list(oa.present.values()))
        if isinstance(oa, GSeq):
            return count_bits([b_and(ctx.g, g) if g is not True else True for g, _ in oa.entries])
        return len(oa)
    return fold(o, one)


def count_bits(bs):
    acc = 0
    for b in bs:
        acc = merge(b, fold(acc, lambda n: n + 1), acc)
    return acc


def m_iter(ctx, o):
    if isinstance(o, SChoice):
        if all(isinstance(a, (MSet, KeysView)) for _, a in o.alts):
            s = ctx.flatten_set(o)
            return SetIter(s.bits, s.keys_sorted())
        return fold(o, lambda a: m_iter(ctx, a))
    if isinstance(o, MSet):
        return SetIter(o.bits, o.keys_sorted())
    if isinstance(o, MList):
        return ListIter(o)
    if isinstance(o, (SetIter, ListIter)):
        return o
    if isinstance(o, GSeq):
        return o                     # a sequence of guarded entries is iterated as it is (for-loops and the harnesses read .entries)
    if o is None:
        return SetIter({}, [])
    return iter(o)


def m_next(ctx, it, *default):
    res = UNDEF
    saved = ctx.g
    stop = False
    for (ga, ia) in reversed(alts_of(it)):
        g = b_and(saved, ga)
        if g is False:
            continue
        if isinstance(ia, SetIter):
            none_before = True
            val = UNDEF
            picks = []
            for k in ia.order:
                pick = b_and(none_before, ia.rem[k])
                picks.append((pick, k))
                none_before = b_and(none_before, b_not(ia.rem[k]))
            for (pick, k) in reversed(picks):
                if pick is not False:
                    val = merge(pick, k, val)
            for (pick, k) in picks:
                ia.rem[k] = b_and(ia.rem[k], b_not(b_and(g, pick)))
            empty = none_before
        elif isinstance(ia, GSeq):
            # a generator / generated sequence used as an iterator: `rem` holds, per entry, where it has not been consumed yet
            if not hasattr(ia, 'rem'):
                ia.rem = [ge for ge, _ in ia.entries]
            none_before = True
            val = UNDEF
            picks = []
            for i_, (ge, v) in enumerate(ia.entries):
                pick = b_and(none_before, ia.rem[i_])
                picks.append((pick, v))
                none_before = b_and(none_before, b_not(ia.rem[i_]))
                if none_before is False:
                    break
            for (pick, v) in reversed(picks):
                if pick is not False:
                    val = merge(pick, v, val)
            for i_, (pick, v) in enumerate(picks):
                ia.rem[i_] = b_and(ia.rem[i_], b_not(b_and(g, pick)))
            empty = none_before
        elif isinstance(ia, ListIter):
            lst = ia.lst
            if not isinstance(ia.pos, int):
                raise Unsupported('symbolic ListIter position')
            inl = ctx.in_len(lst, ia.pos)
            empty = b_not(inl)
            val = lst.slots[ia.pos] if inl is not False else UNDEF
            if not isinstance(ia.pos, int):
                raise Unsupported('symbolic ListIter position')
            ia.pos = ia.pos + 1 if g is True else merge(g, ia.pos + 1, ia.pos)
        else:
            raise Unsupported('next on %r' % (ia,))
        if empty is not False:
            if default:
                val = default[0] if empty is True else merge(empty, default[0], val)      # next(it, default): no StopIteration
            else:
                ctx.fr.exc.append((b_and(g, empty), StopIteration(), ctx.fr.locals))
                stop = b_or(stop, b_and(ga, empty))
        res = merge(ga, val, res)
    ctx.g = b_and(saved, b_not(stop))
    return None if res is UNDEF else res


def m_min(ctx, *a, key=None, default=None):
    if key is not None:
        return m_minmax_key(ctx, min, a, key)
    if len(a) == 1 and isinstance(a[0], (MSet, KeysView, GSeq)) or (len(a) == 1 and isinstance(a[0], MList) and a[0].lo != a[0].hi):
        return m_extreme_of_set(ctx, a[0], False)
    if len(a) == 1:
        a = a[0]
        if isinstance(a, MList) and a.lo == a.hi:
            a = a.slots[:a.lo]
    vals = list(a)
    cur = vals[0]
    for v in vals[1:]:
        cur = fold(cur, lambda x: fold(v, lambda y: (x if y is None else y if x is None else min(x, y))))
    return cur


def m_isinstance(ctx, o, cls):
    def one(oa):
        py = {MSet: set, MDict: dict, MList: list, SBool: bool, SInt: int}.get(type(oa))
        if isinstance(oa, MObj):
            py = oa.cls
        if py is not None:
            return issubclass(py, cls)
        return isinstance(oa, cls)
    return mk_bool(fold_b(o, one))


_NODEFAULT = object()


def m_getattr(ctx, o, name, default=_NODEFAULT):
    """getattr(o, name[, default]) on a union of modelled / native objects; a missing attribute gives the default or AttributeError"""
    if not isinstance(name, str):
        raise Unsupported('getattr with a symbolic attribute name')

    def missing(oa):
        if default is not _NODEFAULT:
            return default
        ctx.raise_(True, AttributeError('%r object has no attribute %r' % (getattr(getattr(oa, 'cls', type(oa)), '__name__', '?'), name)))
        return None

    def one(oa):
        if isinstance(oa, MObj):
            if name in oa.attrs:
                v = oa.attrs[name]
                pres = getattr(oa, 'apres', {}).get(name, True)
                if v is UNDEF or pres is False:
                    return missing(oa)
                if pres is not True:
                    return ctx.call_each(SChoice([(pres, 1), (b_not(pres), 0)]), lambda k: v if k else missing(oa))
                return v
            if name == '__class__' or any(name in c.__dict__ for c in oa.cls.__mro__):
                return ctx.getattr1(oa, name)
            return missing(oa)
        if isinstance(oa, (MSet, MDict, MList, SuperProxy)) or (isinstance(oa, type) and oa.__module__ in ctx.vm.mods):
            return ctx.getattr1(oa, name)
        try:
            return getattr(oa, name)
        except AttributeError:
            return missing(oa)
    return ctx.call_each(ctx.live(o), one)


def m_hasattr(ctx, o, name):
    def one(oa):
        if isinstance(oa, MObj):
            if name in oa.attrs:
                return False if oa.attrs[name] is UNDEF else getattr(oa, 'apres', {}).get(name, True)
            return name == '__class__' or any(name in c.__dict__ for c in oa.cls.__mro__)
        if isinstance(oa, (MSet, MDict, MList)):
            return hasattr({MSet: set, MDict: dict, MList: list}[type(oa)], name)
        return hasattr(oa, name)
    return mk_bool(fold_b(o, one))


def m_super(ctx, cls=None, obj=None):
    if cls is None:
        # zero-argument form: the class comes from the method's __class__ cell, the instance is its first parameter
        f = ctx.fr
        while f is not None and '__class__' not in f.closure:
            f = f.parent
        if f is None or getattr(f, 'first_arg', None) is None:
            raise Unsupported('zero-argument super() outside a method')
        cls, obj = f.closure['__class__'], f.locals[f.first_arg]
    return SuperProxy(cls, obj)


def m_range(ctx, *a):
    if len(a) == 1 and isinstance(a[0], SChoice):
        hi = max(x for _, x in a[0].alts)
        return GSeq([(fold_b(a[0], lambda n, i=i: n > i), i) for i in range(hi)])
    return range(*a)


def m_sorted(ctx, it, key=None, reverse=False):
    plan = [(g, v) for g, v in ctx.iter_plan(it) if g is not False]
    if not all(g is True for g, _ in plan):
        # symbolic membership, concrete elements: the result is the sorted universe with every element appended under its guard
        if isinstance(it, (SetIter, ListIter)) or any(is_symbolic(v) for _, v in plan):
            raise Unsupported('sorted on symbolic collection')
        ks = [v if key is None else ctx.call(key, [v], {}) for _, v in plan]
        if any(is_symbolic(k_) for k_ in ks):
            raise Unsupported('sorted with symbolic keys')
        try:
            order = sorted(range(len(plan)), key=lambda i_: ks[i_], reverse=bool(reverse))
        except TypeError:
            raise Unsupported('sorted of incomparable elements with symbolic membership')
        if isinstance(it, (MList, GSeq)) and len({repr(k_) for k_ in ks}) != len(ks):
            raise Unsupported('sorted of a symbolic-length sequence with ties')
        lst = MList()
        for i_ in order:
            list_append(Ctx(ctx.vm, ctx.fr, b_and(ctx.g, plan[i_][0])), lst, plan[i_][1])
        return lst
    vals = [v for _, v in plan]
    if ORDER['tie'] is not None and isinstance(it, (MSet,)) :
        pass
    if key is None:
        try:
            nat = [to_native(v) for v in vals]
            order = sorted(range(len(vals)), key=lambda i_: nat[i_], reverse=reverse)
            l = MList([vals[i_] for i_ in order])
            l.fresh = True
            return l
        except NotConcrete:
            raise Unsupported('sorted of symbolic elements')
    if key is None:
        return MList(sorted(vals, reverse=reverse))
    keys = [ctx.call(key, [v], {}) for v in vals]
    if any(is_symbolic(k) for k in keys):
        raise Unsupported('sorted with symbolic keys')
    order = sorted(range(len(vals)), key=lambda i: keys[i], reverse=reverse)
    return MList([vals[i] for i in order])


def m_sum(ctx, it):
    acc = 0
    for (ge, v) in ctx.iter_plan(it):
        if isinstance(v, (SBool, bool)):
            v = merge(b_and(ge, as_b(v)), 1, 0)
        elif ge is not True:
            v = merge(ge, v, 0)
        acc = ctx.binop(ast.Add(), acc, v)
    return acc


def m_str(ctx, o=''):
    return FMT if is_symbolic(o) else str(o)


import weakref


def m_id(ctx, o):
    return fold(o, lambda x: id(x))


def m_any(ctx, it):
    acc = False
    for (ge, v) in ctx.iter_plan(it):
        acc = b_or(acc, b_and(ge, ctx.truth(v)))
    return mk_bool(acc)


def m_all(ctx, it):
    acc = True
    for (ge, v) in ctx.iter_plan(it):
        acc = b_and(acc, b_or(b_not(ge), ctx.truth(v)))
    return mk_bool(acc)


def m_bool(ctx, o=False):
    return mk_bool(ctx.truth(o))


def m_minmax_key(ctx, fn, a, key):
    if len(a) == 1:
        plan = list(ctx.iter_plan(a[0]))
        if not all(g is True for g, _ in plan):
            raise Unsupported('min/max of a symbolic collection')
        vals = [v for _, v in plan]
    else:
        vals = list(a)
    ks = [ctx.call(key, [v], {}) for v in vals]
    if any(is_symbolic(k_) for k_ in ks):
        raise Unsupported('min/max with symbolic keys')
    return vals[fn(range(len(vals)), key=lambda i_: ks[i_])]


def m_extreme_of_set(ctx, coll, want_max):
    """min / max of a collection with symbolic membership and concrete, comparable elements"""
    plan = [(g, v) for g, v in ctx.iter_plan(coll) if g is not False]
    if any(is_symbolic(v) for _, v in plan):
        raise Unsupported('min/max over symbolic elements')
    try:
        plan.sort(key=lambda gv: gv[1], reverse=want_max)
    except TypeError:
        raise Unsupported('min/max of incomparable elements')
    none_before = True
    res = UNDEF
    picks = []
    for g, v in plan:
        picks.append((b_and(none_before, g), v))
        none_before = b_and(none_before, b_not(g))
    ctx.raise_(none_before, ValueError('min()/max() of an empty collection'))
    for g, v in reversed(picks):
        if g is not False:
            res = merge(g, v, res)
    return None if res is UNDEF else res


def m_max(ctx, *a, key=None, default=None):
    if key is not None:
        return m_minmax_key(ctx, max, a, key)
    if len(a) == 1 and isinstance(a[0], (MSet, KeysView, GSeq)) or (len(a) == 1 and isinstance(a[0], MList) and a[0].lo != a[0].hi):
        return m_extreme_of_set(ctx, a[0], True)
    if len(a) == 1:
        a = a[0]
        if isinstance(a, MList) and a.lo == a.hi:
            a = a.slots[:a.lo]
    vals = list(a)
    cur = vals[0]
    for v in vals[1:]:
        cur = fold(cur, lambda x: fold(v, lambda y: (x if y is None else y if x is None else max(x, y))))
    return cur


def m_tuple(ctx, it=()):
    plan = list(ctx.iter_plan(it))
    if not all(g is True for g, _ in plan):
        raise Unsupported('tuple() of a symbolic collection')
    return tuple(v for _, v in plan)


class WeakRefModel:
    """weakref.ref(o): the evaluator's heap never collects, so the referent is always alive (collection is outside the model)"""
    def __init__(self, obj):
        self.obj = obj


def m_weakref_ref(ctx, o, callback=None):
    return WeakRefModel(o)


def m_deque(ctx, it=None, maxlen=None):
    l = m_list(ctx, it) if it is not None else MList()
    d = DequeModel(l.slots[:l.hi])
    d.lo, d.hi, d.len = l.lo, l.hi, l.len
    return d


def m_enumerate(ctx, it, start=0):
    plan = [(g, v) for g, v in ctx.iter_plan(it) if g is not False]
    if not all(g is True for g, _ in plan):
        raise Unsupported('enumerate over a collection with symbolic membership')
    return GSeq([(True, (i + start, v)) for i, (g, v) in enumerate(plan)])


def m_zip(ctx, *its):
    plans = [[(g, v) for g, v in ctx.iter_plan(it) if g is not False] for it in its]
    if not all(g is True for p_ in plans for g, _ in p_):
        raise Unsupported('zip over a collection with symbolic membership')
    return GSeq([(True, tuple(v for _, v in row)) for row in zip(*plans)])


def m_reversed(ctx, it):
    plan = [(g, v) for g, v in ctx.iter_plan(it) if g is not False]
    if isinstance(it, MList):
        # slot i exists iff len > i: the reversed sequence visits the same guarded slots from the last possible one down
        return GSeq(list(reversed(plan)))
    if not all(g is True for g, _ in plan):
        raise Unsupported('reversed over symbolic membership')
    return GSeq(list(reversed(plan)))


def m_product(ctx, *its, repeat=1):
    plans = [[(g, v) for g, v in ctx.iter_plan(it) if g is not False] for it in its] * repeat
    out = [(True, ())]
    for p_ in plans:
        out = [(b_and(g0, g1), t0 + (v1,)) for (g0, t0) in out for (g1, v1) in p_]
    return GSeq([(g, t) for g, t in out if g is not False])


COUNT_BOUND = 24


def m_count(ctx, start=0, step=1):
    """itertools.count(): the first COUNT_BOUND values; a consumer that needs more runs into StopIteration, which is then an
    exception guard of the run (reported, never silently dropped) - the bound is an unwinding bound like any other"""
    return GSeq([(True, start + k * step) for k in range(COUNT_BOUND)])


def m_chain(ctx, *its):
    out = []
    for it in its:
        out += [(g, v) for g, v in ctx.iter_plan(it) if g is not False]
    return GSeq(out)


import collections as _collections
import itertools as _itertools
import operator as _operator
import functools as _functools


def _m_binop(node):
    return lambda ctx, a, b: ctx.binop(node, a, b)


def m_op_invert(ctx, a):
    return ctx.ex_UnaryOp(ast.UnaryOp(op=ast.Invert(), operand=_Lit(a)))


def m_op_not(ctx, a):
    return mk_bool(b_not(ctx.truth(a)))


class _Lit(ast.AST):
    """an already evaluated value standing where the evaluator expects an expression node"""
    _fields = ()

    def __init__(self, v):
        self.v = v


def m_reduce(ctx, fn, it, *init):
    """functools.reduce: an element that exists only under a guard (symbolic membership, or a generator whose later elements are
    reached only where the earlier ones did not raise) is folded in under that guard and skipped elsewhere"""
    plan = [(g, v) for g, v in ctx.iter_plan(it) if g is not False]
    if init:
        acc = init[0]
    elif plan and plan[0][0] is True:
        acc, plan = plan[0][1], plan[1:]
    elif not plan:
        ctx.raise_(True, TypeError('reduce() of empty iterable with no initial value'))
        return None
    else:
        raise Unsupported('reduce without initial value over a sequence whose first element is guarded')
    for g, v in plan:
        if g is True:
            acc = ctx.call(fn, [acc, v], {})
            continue
        saved = ctx.g
        ctx.g = b_and(saved, g)
        if ctx.g is False:
            ctx.g = saved
            continue
        before = ctx.g
        r = ctx.call(fn, [acc, v], {})
        lost = b_and(before, b_not(ctx.g))          # inputs on which the step raised
        acc = merge(g, r, acc)
        ctx.g = b_and(saved, b_not(lost))
    return acc

MODELS = {_itertools.product: m_product, _itertools.chain: m_chain, _itertools.count: m_count, _collections.deque: m_deque, enumerate: m_enumerate, zip: m_zip, reversed: m_reversed, weakref.ref: m_weakref_ref, weakref.WeakValueDictionary: m_dict, weakref.WeakKeyDictionary: m_dict, any: m_any, all: m_all, bool: m_bool, max: m_max, tuple: m_tuple, frozenset: m_frozenset, weakref.WeakSet: m_set, id: m_id, set: m_set, dict: m_dict, list: m_list, len: m_len, iter: m_iter, next: m_next, min: m_min,
          _operator.and_: _m_binop(ast.BitAnd()), _operator.or_: _m_binop(ast.BitOr()), _operator.xor: _m_binop(ast.BitXor()), _operator.add: _m_binop(ast.Add()), _operator.sub: _m_binop(ast.Sub()),
          _operator.invert: m_op_invert, _operator.inv: m_op_invert, _operator.not_: m_op_not, _functools.reduce: m_reduce,
          isinstance: m_isinstance, getattr: m_getattr, hasattr: m_hasattr, super: m_super, range: m_range, sum: m_sum, str: m_str, sorted: m_sorted}
