"""The deciding step: SMT queries over the circuits produced by the evaluator and the oracle circuits.

Usage in a worker:
    (run the real code symbolically -> guards in the folded DAG)
    d = Decider(care_text)            # snapshots the simplifier's rewrite log, switches reduction off
    want = <oracle built now, raw DAG>
    d.differ(impl_vector, oracle_vector, bad=[exception guard, unwinding guard]) -> 'unsat' | 'sat' | 'unknown'
    d.audit()                         # every logged rewrite re-proved un-folded (or a seeded sample)
"""
import time, random
from . import see
from .see import is_c, b_or, b_and, b_not
from .smt import SmtProc, cross_check, SolverError

AUDIT_FULL_LIMIT = 12000
AUDIT_SAMPLE = 2000


def start_lemma_log(seed=0, cap=AUDIT_FULL_LIMIT):
    see.LEMMAS.update(n=0, keep=[], cap=cap, rng=random.Random(seed), last=None, must=[])


class Decider:
    def __init__(self, care_text=None, record=False, timeout_ms=None, cmd=('z3-new', '-in')):
        self.lemmas = list(see.LEMMAS['keep'])
        self.must = list(see.LEMMAS['must'])
        self.n_lemmas = see.LEMMAS['n']
        see.LEMMAS.update(cap=0)
        self.nfun = len(see.TT['by']) if see.TT['on'] else 0
        self.folded = see.TT['on']
        see.tt_off()
        self.smt = SmtProc(cmd=cmd, record=record, timeout_ms=timeout_ms)
        self.care_text = care_text
        self.care_vars = set()
        self.results = []

    def _ensure_care(self):
        if self.care_text:
            import re
            for nm in set(re.findall(r'[A-Za-z_][A-Za-z_0-9]*', self.care_text)) - {'and', 'or', 'not', 'true', 'false'}:
                self.smt.declare(nm)

    def _q(self, terms):
        self._ensure_care()
        lits = list(terms) + list(getattr(self, 'assumed', []))
        if self.care_text:
            lits.append(self.care_text)
        return self.smt.check_text(lits)

    def assume(self, g):
        """restrict every later query to inputs satisfying the (raw) guard g, e.g. 'outside the known-finding classes'"""
        if not hasattr(self, 'assumed'):
            self.assumed = []
        self.assumed.append(self.term(g))

    def term(self, g):
        self.smt.define(g)
        return self.smt.name(g)

    def differ(self, impl, want, bad=()):
        """care and (some impl_i != want_i or some bad guard): the violation query"""
        xs = ['(xor %s %s)' % (self.term(a), self.term(b)) for a, b in zip(impl, want)]
        xs += [self.term(b) for b in bad if b is not False]
        if not xs:
            self.smt.queries += 1
            return 'unsat'
        return self._q(['(or false %s)' % ' '.join(xs)])

    def holds(self, *guards):
        """care and all guards: satisfiable? (twins, single obligations)"""
        return self._q([self.term(g) for g in guards])

    def violated(self, *bad):
        return self._q(['(or false %s)' % ' '.join(self.term(b) for b in bad)])

    def model(self):
        return self.smt.values()

    def model_of(self, terms):
        """re-run the query with the assertions kept so that a model can be read"""
        self._ensure_care()
        self.smt.send('(push 1)\n')
        for t in list(terms) + list(getattr(self, 'assumed', [])) + ([self.care_text] if self.care_text else []):
            self.smt.send('(assert %s)\n' % t)
        r = self.smt.check_text()
        m = self.smt.values() if r == 'sat' else None
        self.smt.send('(pop 1)\n')
        return m

    def differ_model(self, impl, want, bad=()):
        xs = ['(xor %s %s)' % (self.term(a), self.term(b)) for a, b in zip(impl, want)]
        xs += [self.term(b) for b in bad if b is not False]
        return self.model_of(['(or false %s)' % ' '.join(xs)])

    def audit(self, batch=400, budget_s=420):
        """re-prove the simplifier's rewrites  gate(children) == representative  (under the care set), un-folded.
        A batch the solver answers `sat` on is a FAILED lemma (the run becomes inconclusive).  A batch it times out on is split
        and retried while the time budget lasts; what is still open when the budget is spent is reported as `unproved`
        (an incomplete audit, stated in the evidence - not a failed one).
        Returns dict(total=<rewrites performed>, checked=<re-proved>, full=<bool>, failed=<n>, unproved=<n>)"""
        lem = self.lemmas
        full = self.n_lemmas == len(lem)
        if not full and len(lem) > AUDIT_SAMPLE:
            lem = lem[:AUDIT_SAMPLE]
        if not full:
            lem = self.must[:4000] + lem       # loop-terminating folds (unwinding assertions) are always included
        t0 = time.time()
        st = dict(failed=0, unproved=0, proved=0)

        def prove(part):
            if time.time() - t0 > budget_s:
                st['unproved'] += len(part)
                return
            terms = []
            for (op, args, res) in part:
                for a in args:
                    self.smt.define(a)
                if not is_c(res):
                    self.smt.define(res)
                gate = '(%s %s)' % (op, ' '.join(self.smt.name(a) for a in args))
                terms.append('(xor %s %s)' % (gate, self.smt.name(res)))
            if not terms:
                return
            r = self._q(['(or false %s)' % ' '.join(terms)])
            if r == 'unsat':
                st['proved'] += len(part)
            elif r == 'sat':
                st['failed'] += 1
            elif len(part) <= 25:
                st['unproved'] += len(part)
            else:
                h = len(part) // 2
                prove(part[:h])
                prove(part[h:])

        for i in range(0, len(lem), batch):
            prove(lem[i:i + batch])
        return dict(total=self.n_lemmas, checked=st['proved'], sampled=len(lem), full=full and not st['unproved'], loop_exit_folds=len(self.must),
                    failed=st['failed'], unproved=st['unproved'], secs=round(time.time() - t0, 2))

    def cross(self, timeout=180):
        return cross_check(self.smt, timeout)

    def stats(self):
        return dict(queries=self.smt.queries, solver_s=round(self.smt.t_solve, 3), gates=self.smt.nodes, functions=self.nfun)

    def close(self):
        self.smt.close()
