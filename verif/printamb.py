"""C09/C11 solver part: bounded unambiguity of the *printed-form* language.
Templates are extracted from the real __str__ methods; the solver looks for a lexeme string
(<= L lexemes) with two different derivations = two different trees that print identically."""
import sys, time, itertools, importlib
from . import see
from .see import var, b_and, b_or, b_not, b_ite, b_xor, is_c
from .smt import SmtProc

LEX = ['true', 'false', '(', ')', 'not', 'or', 'and', '-->', 'A', 'E', 'X', 'F', 'G', 'U', 'R', 'p', 'q']

def tokenize(s):
    out = []
    for part in s.replace('(', ' ( ').replace(')', ' ) ').split():
        out.append(part)
    return out

def extract_templates(mod):
    """run the real printers on placeholder children; returns {class name: [template,...]}"""
    M = mod
    ph = ['C1', 'C2', 'C3']
    T = {}
    def atoms(k): return [M.AtomicProposition(ph[i]) for i in range(k)]
    for name, cls in M.alphabet.items():
        if name in ('Bool', 'AtomicProposition'): continue
        outs = []
        for k in (1, 2, 3):
            try:
                f = cls(*atoms(k))
            except TypeError:
                continue
            toks = tokenize(str(f))
            outs.append((k, toks))
        # arity: unary ops accept exactly 1; binary exactly 2; n-ary and/or accept >=1 (arity 1 excluded by the property)
        T[name] = outs
    return T

def grammar_from_templates(T, nary=('Or', 'And')):
    """single-kind grammar Fm (kind constraints only remove derivations, so ambiguity of the
    unconstrained grammar is an upper bound: if it is unambiguous so is every logic's sub-language)"""
    G = {'Fm': [(('t', 'true'),), (('t', 'false'),), (('t', 'p'),), (('t', 'q'),)]}
    for name, outs in T.items():
        for k, toks in outs:
            if name in nary and k == 1: continue           # arity >= 2 per the property
            want = {'Not': 1, 'X': 1, 'F': 1, 'G': 1, 'A': 1, 'E': 1, 'Imply': 2, 'U': 2, 'R': 2}.get(name)
            if want is not None and k != want: continue      # documented arity only
            rhs = tuple(('n', 'Fm') if t in ('C1', 'C2', 'C3') else ('t', t) for t in toks)
            if name in nary and k == 3:
                # generalise arity 3 to arity >= 3 through a tail nonterminal
                sep = toks[toks.index('C1') + 1]
                tail = 'Tail_' + name
                i2 = toks.index('C2')
                rhs = tuple(('n', 'Fm') if t == 'C1' else ('t', t) for t in toks[:i2 - 1]) + (('n', tail),) + (('t', toks[-1]),)
                G.setdefault(tail, [(('t', sep), ('n', 'Fm'), ('t', sep), ('n', 'Fm')), (('t', sep), ('n', 'Fm'), ('n', tail))])
            G['Fm'].append(rhs)
    return G

def justifications(rhs, i, j, D, w):
    """list of guards, one per way to split span [i,j) among the symbols of rhs"""
    if not rhs:
        return [True] if i == j else []
    kind, x = rhs[0]
    out = []
    if kind == 't':
        if i < j:
            for g in justifications(rhs[1:], i + 1, j, D, w):
                out.append(b_and(w[i][LEX.index(x)], g))
    else:
        rest_min = len(rhs) - 1
        for m in range(i + 1, j - rest_min + 1):
            a = D.get((x, i, m), False)
            if a is False: continue
            for g in justifications(rhs[1:], m, j, D, w):
                out.append(b_and(a, g))
    return [g for g in out if g is not False]



# ------------------------------------------------------------------ task (rules carry the class that printed them)
ARITY = {'Not': 1, 'X': 1, 'F': 1, 'G': 1, 'A': 1, 'E': 1, 'Imply': 2, 'U': 2, 'R': 2}


def tagged_grammar(T, nary=('Or', 'And')):
    G = {'Fm': [((('t', 'true'),), ('Bool', True)), ((('t', 'false'),), ('Bool', False)), ((('t', 'p'),), ('AtomicProposition', 'p')),
                ((('t', 'q'),), ('AtomicProposition', 'q'))]}
    for name, outs in T.items():
        for k, toks in outs:
            if name in nary and k == 1:
                continue
            if name in ARITY and k != ARITY[name]:
                continue
            rhs = tuple(('n', 'Fm') if t in ('C1', 'C2', 'C3') else ('t', t) for t in toks)
            if name in nary and k == 3:
                sep = toks[toks.index('C1') + 1]
                tail = 'Tail_' + name
                i2 = toks.index('C2')
                rhs = tuple(('n', 'Fm') if t == 'C1' else ('t', t) for t in toks[:i2 - 1]) + (('n', tail),) + (('t', toks[-1]),)
                G.setdefault(tail, [((('t', sep), ('n', 'Fm'), ('t', sep), ('n', 'Fm')), ('tail', 2)), ((('t', sep), ('n', 'Fm'), ('n', tail)), ('tail', 1))])
            G['Fm'].append((rhs, (name, k)))
    return G


def all_parses(G, toks, N='Fm', i=0, j=None, memo=None):
    """all derivation trees of toks[i:j] from N (tiny inputs only)"""
    j = len(toks) if j is None else j
    memo = {} if memo is None else memo
    key = (N, i, j)
    if key in memo:
        return memo[key]
    memo[key] = []
    out = []

    def seqs(rhs, a, b):
        if not rhs:
            return [[]] if a == b else []
        kind, x = rhs[0]
        res = []
        if kind == 't':
            if a < b and toks[a] == x:
                res += [[None] + r for r in seqs(rhs[1:], a + 1, b)]
        else:
            for m in range(a + 1, b - (len(rhs) - 1) + 1):
                for sub in all_parses(G, toks, x, a, m, memo):
                    res += [[sub] + r for r in seqs(rhs[1:], m, b)]
        return res
    for rhs, tag in G[N]:
        for kids in seqs(rhs, i, j):
            out.append((tag, [k for k in kids if k is not None]))
    memo[key] = out
    return out


def tree_to_formula(M, t):
    tag, kids = t
    if tag[0] == 'Bool':
        return M.Bool(tag[1])
    if tag[0] == 'AtomicProposition':
        return M.AtomicProposition(tag[1])

    def flat(k):
        if k[0][0] == 'tail':
            r = []
            for c in k[1]:
                r += flat(c)
            return r
        return [tree_to_formula(M, k)]
    args = []
    for k in kids:
        args += flat(k)
    return getattr(M, tag[0])(*args)


def amb_task(logic, L):
    """is there a lexeme string of length <= L with two different derivations in the grammar of printed forms
    (= two different trees that print identically)?"""
    mod = importlib.import_module('pyModelChecking.' + logic)
    see.reset()
    t0 = time.time()
    T = extract_templates(mod)
    G = tagged_grammar(T)
    NX = len(LEX) + 1
    END = len(LEX)
    w = [[var('w%d_%d' % (p, x)) for x in range(NX)] for p in range(L)]
    wf = b_and(*[b_and(b_or(*w[p]), *[b_not(b_and(a, b)) for a, b in itertools.combinations(w[p], 2)]) for p in range(L)],
               *[b_or(b_not(w[p][END]), w[p + 1][END]) for p in range(L - 1)])
    length = [b_and(*([b_not(w[p][END]) for p in range(n)] + ([w[n][END]] if n < L else []))) for n in range(L + 1)]
    D, J = {}, {}
    for ln in range(1, L + 1):
        for i in range(0, L - ln + 1):
            j = i + ln
            for N in G:
                js = []
                for rhs, tag in G[N]:
                    js += justifications(rhs, i, j, D, w)
                J[N, i, j] = js
                D[N, i, j] = b_or(*js)
    amb = False
    for key, js in J.items():
        if len(js) >= 2:
            amb = b_or(amb, b_or(*[b_and(a, b) for a, b in itertools.combinations(js, 2)]))
    smt = SmtProc(timeout_ms=1500000)
    t1 = time.time()
    r = smt.check(wf, amb)
    rec = dict(logic=logic, L=L, rules=sum(len(v) for v in G.values()), templates={k: [' '.join(t) for _, t in v] for k, v in T.items()},
               verdict=r, encode_s=round(t1 - t0, 1))
    if r == 'sat':
        vals = smt.values()
        toks = [LEX[x] for p in range(L) for x in range(len(LEX)) if vals.get('w%d_%d' % (p, x))]
        rec['witness'] = toks
    rec['twin'] = smt.check(wf, b_or(*[b_and(length[n], D['Fm', 0, n]) for n in range(min(4, L), L + 1)]))
    rec.update(queries=smt.queries, solver_s=round(smt.t_solve, 2), gates=smt.nodes)
    smt.close()
    return rec


def confirm_ambiguity(logic, toks):
    """native confirmation: two different formula objects of <logic> that print to the same text (searches all spans)"""
    mod = importlib.import_module('pyModelChecking.' + logic)
    G = tagged_grammar(extract_templates(mod))
    for i in range(len(toks)):
        for j in range(i + 1, len(toks) + 1):
            ps = all_parses(G, toks[i:j])
            fs = []
            for p in ps:
                try:
                    fs.append(tree_to_formula(mod, p))
                except Exception:
                    pass
            for a in range(len(fs)):
                for b in range(a + 1, len(fs)):
                    if str(fs[a]) == str(fs[b]) and _shape(fs[a]) != _shape(fs[b]):
                        return fs[a], fs[b]
    return None


def _shape(f):
    n = type(f).__name__
    if n == 'Bool':
        return ('Bool', bool(f._value))
    if n == 'AtomicProposition':
        return ('AtomicProposition', f.name)
    return (n,) + tuple(_shape(s) for s in f.subformulas())


def kinded_grammar(logic, T):
    """grammar of the printed forms of the REAL formulas of <logic>: one nonterminal per documented kind (state / path / A-rooted),
    rules from the printing templates, admissible child kinds from the documented grammar (treeaut.doc_kind).
    Used for "every printed form is accepted by the parser" (the single-kind grammar above over-approximates, which is right for
    ambiguity but would demand acceptance of strings that are not printed forms of any formula)."""
    from . import treeaut
    kd = treeaut.doc_kind(logic)
    kinds = ['S', 'P', 'Q']
    G = {'K_' + k: [] for k in kinds}
    for leaf in ('true', 'false', 'p', 'q'):
        G['K_S'].append(((('t', leaf),), None))
    for name, outs in T.items():
        for k, toks in outs:
            if name in ARITY and k != ARITY[name]:
                continue
            if name in ('Or', 'And') and k == 1:
                continue
            for kk in itertools.product(kinds, repeat=k):
                res = kd(name, list(kk))
                if res is None:
                    continue
                it = iter(kk)
                rhs = tuple(('n', 'K_' + next(it)) if t in ('C1', 'C2', 'C3') else ('t', t) for t in toks)
                G['K_' + res].append((rhs, (name, k)))
    return G, ['K_' + k for k in kinds]


# ------------------------------------------------------------------ is printing compositional?  (what the grammar model assumes)
def compositional_task(logic):
    """The printed-form grammar is extracted by printing every operator over ATOMIC placeholders; it is a faithful model of
    __str__ only if printing is compositional: str(Op(c1..ck)) is the operator's template with str(ci) substituted, whatever
    the class of ci.  This task checks that on every (operator, arity, position, class of the child) natively and, independently,
    groups ALL formulas of height <= 2 (n-ary operators with 2 and 3 operands) by printed form to find two different trees
    that print identically (exhaustive up to the stated pools; enumeration, not a solver verdict)."""
    M = importlib.import_module('pyModelChecking.' + logic)
    T = extract_templates(M)
    names = [n for n in M.alphabet if n not in ('Bool', 'AtomicProposition')]
    ap = lambda s: M.AtomicProposition(s)
    leaves = [ap('p'), ap('q'), M.Bool(True)]
    out = dict(logic=logic, contexts=0, non_compositional=[], formulas=0, collisions=[])

    def build(cls, ops):
        try:
            return cls(*ops)
        except Exception:
            return None
    # height-1 pool: every operator over leaves, arities 1..3
    h1 = []
    for n in names:
        cls = M.alphabet[n]
        for k in (1, 2, 3):
            if n in ARITY and k != ARITY[n]:
                continue
            if n not in ARITY and k == 1:
                continue
            for ops in itertools.product(leaves, repeat=k):
                f = build(cls, [o.clone() if hasattr(o, 'clone') else o for o in ops])
                if f is not None:
                    h1.append(f)
    # (1) compositionality on every context: parent over one height-1 child (each class/arity) and atoms elsewhere
    reps = {}
    for f in h1:
        reps.setdefault((type(f).__name__, len(list(f.subformulas()))), f)
    for n in names:
        cls = M.alphabet[n]
        for k, toks in T.get(n, []):
            if (n in ARITY and k != ARITY[n]) or (n not in ARITY and k == 1):
                continue
            for pos in range(k):
                for (cn, ck), child in reps.items():
                    ops = [ap('C%d' % (i + 1)) for i in range(k)]
                    ops[pos] = child.clone()
                    f = build(cls, ops)
                    if f is None:
                        continue
                    out['contexts'] += 1
                    want = []
                    for t in toks:
                        want += tokenize(str(child)) if t == 'C%d' % (pos + 1) else [t]
                    if tokenize(str(f)) != want:
                        out['non_compositional'].append(dict(parent=n, arity=k, position=pos, child='%s/%d' % (cn, ck), printed=str(f), expected=' '.join(want)))
    # (2) all formulas of height <= 2 grouped by printed form (ternary operands from a reduced pool)
    small = leaves + [f for f in h1 if all(str(s) in ('p', 'q') for s in f.subformulas())][:40]
    pool2 = list(leaves) + h1
    groups = {}

    def note(f):
        out['formulas'] += 1
        groups.setdefault(str(f), []).append(f)
    for f in pool2:
        note(f)
    for n in names:
        cls = M.alphabet[n]
        for k in (1, 2, 3):
            if (n in ARITY and k != ARITY[n]) or (n not in ARITY and k == 1):
                continue
            src = pool2 if k <= 2 else small
            for ops in itertools.product(src, repeat=k):
                if all(o in leaves for o in ops):
                    continue
                f = build(cls, [o.clone() for o in ops])
                if f is not None:
                    note(f)
    for text, fs in groups.items():
        shapes = {}
        for f in fs:
            shapes.setdefault(_shape(f), f)
        if len(shapes) > 1:
            a, b = list(shapes.values())[:2]
            out['collisions'].append(dict(text=text, a=repr(_shape(a)), b=repr(_shape(b)), eq=bool(a == b), same_hash=hash(a) == hash(b)))
            if len(out['collisions']) >= 20:
                break
    return out
