"""C14: Kripke constructor / accessors / clone / get_substructure on symbolic arguments."""
import itertools, time
from . import see, oracles
from .see import (VM, GSeq, MSet, MDict, MList, var, b_and, b_or, b_not, b_xor, b_iff, fold_b, is_c, alts_of, enable_tt,
                  restrict_care, TT)
from .harness import harness_ctx, exc_guard, unwind_guard, exc_kinds, KRIPKE_MODS
from .decide import Decider, start_lemma_log
from .common import write_replay, run_replay, SEED

U = 3          # universe {0,1,2}; 'zz' is a value that is never a node


def sget(q, k):
    """membership of k in one alternative of a set-valued slot; None is the evaluator's poison value of a path that raised
    (its guard is dead or covered by the exception guard)"""
    return q.get(k) if q is not None else False


def names_ctor():
    return (['s_%d' % i for i in range(U)] + ['t_%d_%d' % (i, j) for i in range(U) for j in range(U)] +
            ['s0_%d' % i for i in range(U)] + ['lk_%d' % i for i in range(U)] + ['lp_%d' % i for i in range(U)])


def getv(fixed, nm):
    return fixed[nm] if nm in fixed else var(nm)


def build_args(ctx, fixed, u=(0, 1, 2)):
    s = [getv(fixed, 's_%d' % i) for i in range(U)]
    t = [[getv(fixed, 't_%d_%d' % (i, j)) for j in range(U)] for i in range(U)]
    s0 = [getv(fixed, 's0_%d' % i) for i in range(U)]
    lk = [getv(fixed, 'lk_%d' % i) for i in range(U)]
    lp = [getv(fixed, 'lp_%d' % i) for i in range(U)]
    S = GSeq([(s[i], u[i]) for i in range(U)])
    R = GSeq([(t[i][j], (u[i], u[j])) for i in range(U) for j in range(U)])
    S0 = GSeq([(s0[i], u[i]) for i in range(U)] + [(True, 'zz')])           # an initial state that is never a state
    L = MDict()
    for i in range(U):
        st = MSet()
        st.put('p', lp[i])
        Lc = see.Ctx(ctx.vm, ctx.fr, lk[i])
        Lc.setitem(L, u[i], st)
    return s, t, s0, lk, lp, S, R, S0, L


def ctor_task(fixed, u=(0, 1, 2)):
    u = list(u)
    """Kripke(S,S0,R,L) with symbolic membership of S, R, S0 and symbolic keys/values of L over a 3-element universe"""
    import pyModelChecking.kripke as KR
    see.reset()
    t0 = time.time()
    names = [x for x in names_ctor() if x not in fixed]
    enable_tt(names)
    start_lemma_log(SEED)
    vm = VM(KRIPKE_MODS, max_unroll=16, check_unroll=False)
    ctx, fr = harness_ctx(vm)
    s, t, s0, lk, lp, S, R, S0, L = build_args(ctx, fixed, u)
    K = ctx.call(KR.Kripke, [], {'S': S, 'S0': S0, 'R': R, 'L': L})
    raised_rt = exc_guard(fr, only=RuntimeError)
    raised_other = exc_guard(fr, but=RuntimeError)
    kinds = exc_kinds(fr)
    n_exc0 = len(fr.exc)
    impl, bad = [raised_rt], [raised_other]
    ok_g = ctx.g
    # the constructed object (under the guard that construction succeeded)
    nxt, labs, S0o = K.attrs['_next'], K.attrs.get('_labels'), K.attrs.get('S0')
    isnode = [nxt.present.get(u[i], False) for i in range(U)]
    impl += [b_and(ok_g, x) for x in isnode]
    impl += [b_and(ok_g, isnode[i], fold_b(nxt.vals[u[i]], lambda q: sget(q, u[j]))) if u[i] in nxt.present else False for i in range(U) for j in range(U)]
    if labs is not None:
        impl += [b_and(ok_g, labs.present.get(u[i], False)) for i in range(U)]
        impl += [b_and(ok_g, labs.present.get(u[i], False), fold_b(labs.vals[u[i]], lambda q: sget(q, 'p'))) if u[i] in labs.present else False for i in range(U)]
        bad += [b_and(ok_g, p) for k, p in labs.present.items() if k not in u]
        for i in u:
            if i in labs.present:
                for (ga, q) in alts_of(labs.vals[i]):
                    if q is None:
                        continue
                    bad += [b_and(ok_g, labs.present[i], ga, b) for k, b in q.bits.items() if k != 'p']
                    # the label set must be a copy, not the caller's object
                    for (gl, orig) in (alts_of(L.vals[i]) if i in L.vals else []):
                        if q is orig:
                            bad.append(b_and(ok_g, labs.present[i], ga))
    else:
        bad.append(ok_g)
    impl += [b_and(ok_g, fold_b(S0o, lambda q: sget(q, u[i]))) for i in range(U)] if S0o is not None else [False] * U
    if S0o is not None:
        bad += [b_and(ok_g, fold_b(S0o, lambda q: sget(q, 'zz')))]
    # accessors on a non-state must raise RuntimeError; on a state they return the sets
    for xi in list(range(U)) + ['zz']:
        x = u[xi] if xi != 'zz' else 'zz'
        for meth in ('labels', 'next'):
            c2 = see.Ctx(vm, see.Frame('<acc>'), ok_g)
            r = c2.call(c2.getattr1(K, meth), [x], {})
            rt = b_or(*[g for g, e, _ in c2.fr.exc if isinstance(e, RuntimeError)])
            other = b_or(*[g for g, e, _ in c2.fr.exc if not isinstance(e, RuntimeError)])
            nodeg = isnode[xi] if xi != 'zz' else False
            bad.append(other)
            bad.append(b_and(ok_g, b_xor(rt, b_not(nodeg))))          # raises RuntimeError <=> not a state
    # replace the labelling function by one with symbolic keys that also names a non-state; the accessor contract must survive
    L2 = MDict()
    rk = [getv(fixed, 's0_%d' % i) for i in range(U)]             # (re-uses the S0 bits as "key i is present in the new labelling")
    for i in range(U):
        st2 = MSet()
        st2.put('r', True)
        see.Ctx(ctx.vm, ctx.fr, rk[i]).setitem(L2, u[i], st2)
    zz = MSet()
    zz.put('r', True)
    ctx.setitem(L2, 'zz', zz)
    c3 = see.Ctx(vm, see.Frame('<repl>'), ok_g)
    c3.call(c3.getattr1(K, 'replace_labelling_function'), [L2], {})
    bad.append(b_or(*[g for g, e, _ in c3.fr.exc]))
    for xi in list(range(U)) + ['zz']:
        x = u[xi] if xi != 'zz' else 'zz'
        c4 = see.Ctx(vm, see.Frame('<acc2>'), c3.g)
        r = c4.call(c4.getattr1(K, 'labels'), [x], {})
        rt = b_or(*[g for g, e, _ in c4.fr.exc if isinstance(e, RuntimeError)])
        other = b_or(*[g for g, e, _ in c4.fr.exc if not isinstance(e, RuntimeError)])
        nodeg = isnode[xi] if xi != 'zz' else False
        bad.append(other)
        bad.append(b_and(c3.g, b_xor(rt, b_not(nodeg))))
        if xi != 'zz':
            has_r = fold_b(r, lambda q: (q.get('r') if isinstance(q, MSet) else False)) if r is not None else False
            bad.append(b_and(c4.g, nodeg, b_xor(has_r, rk[xi])))          # labels(x) is the new label set, or empty when the key was missing
    bad.append(unwind_guard(vm))
    t1 = time.time()
    encoded = sorted(vm.encoded)
    # ---- oracle
    d = Decider()
    s2 = [getv(fixed, 's_%d' % i) for i in range(U)]
    t2 = [[getv(fixed, 't_%d_%d' % (i, j)) for j in range(U)] for i in range(U)]
    s02 = [getv(fixed, 's0_%d' % i) for i in range(U)]
    lk2 = [getv(fixed, 'lk_%d' % i) for i in range(U)]
    lp2 = [getv(fixed, 'lp_%d' % i) for i in range(U)]
    node = [b_or(s2[i], *([t2[i][j] for j in range(U)] + [t2[j][i] for j in range(U)])) for i in range(U)]
    total = b_and(*[b_or(b_not(node[i]), b_or(*t2[i])) for i in range(U)])
    want = [b_not(total)]
    want += [b_and(total, node[i]) for i in range(U)]
    want += [b_and(total, t2[i][j]) for i in range(U) for j in range(U)]
    want += [b_and(total, node[i]) for i in range(U)]
    want += [b_and(total, node[i], lk2[i], lp2[i]) for i in range(U)]
    want += [b_and(total, node[i], s02[i]) for i in range(U)]
    r = d.differ(impl, want, bad)
    res = dict(kind='ctor', univ=u, fixed=fixed, verdict=r, encode_s=round(t1 - t0, 2), exc=kinds, encoded=encoded)
    if r == 'sat':
        res['model'] = d.differ_model(impl, want, bad)
    res['twin'] = d.holds(raised_rt) if not is_c(raised_rt) else ('sat' if raised_rt else 'unsat')
    res['twin2'] = d.holds(b_not(raised_rt)) if not is_c(raised_rt) else ('unsat' if raised_rt else 'sat')
    res['audit'] = d.audit(batch=1000)
    res.update(d.stats())
    d.close()
    return res


def copy_task(what, fixed, u=(0, 1, 2)):
    """clone() / get_substructure(V) of a structure with all 3 states listed, symbolic transitions, labels, S0 and V"""
    import pyModelChecking.kripke as KR
    u = list(u)
    see.reset()
    t0 = time.time()
    names = [x for x in ['t_%d_%d' % (i, j) for i in range(U) for j in range(U)] + ['s0_%d' % i for i in range(U)] +
             ['lp_%d' % i for i in range(U)] + ['v_%d' % i for i in range(U + 1)] if x not in fixed]
    enable_tt(names)
    tt = [[getv(fixed, 't_%d_%d' % (i, j)) for j in range(U)] for i in range(U)]
    care = b_and(*[b_or(*tt[i]) for i in range(U)])
    if care is False:
        return dict(kind=what, fixed=fixed, verdict='unsat', skipped=True, queries=0, solver_s=0, gates=0, encoded=[], twin='sat')
    restrict_care(care)
    start_lemma_log(SEED)
    vm = VM(KRIPKE_MODS, max_unroll=16, check_unroll=False)
    ctx, fr = harness_ctx(vm)
    t = [[getv(fixed, 't_%d_%d' % (i, j)) for j in range(U)] for i in range(U)]
    s0 = [getv(fixed, 's0_%d' % i) for i in range(U)]
    lp = [getv(fixed, 'lp_%d' % i) for i in range(U)]
    v = [getv(fixed, 'v_%d' % i) for i in range(U + 1)]
    L = MDict()
    for i in range(U):
        st = MSet()
        st.put('p', lp[i])
        ctx.setitem(L, u[i], st)
    K = ctx.call(KR.Kripke, [], {'S': list(u), 'S0': GSeq([(s0[i], u[i]) for i in range(U)]),
                                 'R': GSeq([(t[i][j], (u[i], u[j])) for i in range(U) for j in range(U)]), 'L': L})
    from .mc import snapshot, mutated, heap_sets
    snap = snapshot(K)
    korig_sets = heap_sets(K)
    if what == 'clone':
        C = ctx.call(ctx.getattr1(K, 'clone'), [], {})
        keep = [True] * U
    else:
        V = MSet()
        for i in range(U):
            V.put(u[i], v[i])
        V.put('zz', v[U])                                        # V may name a non-state
        C = ctx.call(ctx.getattr1(K, 'get_substructure'), [V], {})
        keep = v[:U]
    raised_rt = exc_guard(fr, only=RuntimeError)
    raised_other = exc_guard(fr, but=RuntimeError)
    ok_g = ctx.g
    impl, bad = [raised_rt], [raised_other]
    shared = False
    if C is not None:
        nxt, labs, S0o = C.attrs['_next'], C.attrs.get('_labels'), C.attrs.get('S0')
        isnode = [nxt.present.get(u[i], False) for i in range(U)]
        impl += [b_and(ok_g, x) for x in isnode]
        impl += [b_and(ok_g, isnode[i], fold_b(nxt.vals[u[i]], lambda q: sget(q, u[j]))) if u[i] in nxt.present else False for i in range(U) for j in range(U)]
        bad += [b_and(ok_g, p) for k, p in nxt.present.items() if k not in u]
        if labs is not None:
            impl += [b_and(ok_g, labs.present.get(u[i], False)) for i in range(U)]
            impl += [b_and(ok_g, labs.present.get(u[i], False), fold_b(labs.vals[u[i]], lambda q: sget(q, 'p'))) if u[i] in labs.present else False for i in range(U)]
            for i in u:
                if i in labs.present:
                    for (ga, q) in alts_of(labs.vals[i]):
                        if q is None:
                            continue
                        bad += [b_and(ok_g, labs.present[i], ga, b) for k, b in q.bits.items() if k != 'p']
                        if any(q is o for o in korig_sets):
                            shared = True
        else:
            impl += [False] * (2 * U)
            bad.append(ok_g)
        impl += [b_and(ok_g, fold_b(S0o, lambda q: sget(q, u[i]))) for i in range(U)] if S0o is not None else [False] * U
        for i in u:
            if i in nxt.present:
                for (ga, q) in alts_of(nxt.vals[i]):
                    if any(q is o for o in korig_sets):
                        shared = True
    else:
        impl += [False] * (U + U * U + 3 * U)
    bad += mutated(K, snap)
    bad.append(unwind_guard(vm))
    t1 = time.time()
    encoded = sorted(vm.encoded)
    kinds = exc_kinds(fr)
    from .harness import total_text
    d = Decider(total_text(U, fixed=fixed))
    t2 = [[getv(fixed, 't_%d_%d' % (i, j)) for j in range(U)] for i in range(U)]
    s02 = [getv(fixed, 's0_%d' % i) for i in range(U)]
    lp2 = [getv(fixed, 'lp_%d' % i) for i in range(U)]
    v2 = [getv(fixed, 'v_%d' % i) for i in range(U + 1)]
    kp = [True] * U if what == 'clone' else v2[:U]
    ind_total = b_and(*[b_or(b_not(kp[i]), b_or(*[b_and(t2[i][j], kp[j]) for j in range(U)])) for i in range(U)])
    want = [b_not(ind_total)]
    want += [b_and(ind_total, kp[i]) for i in range(U)]
    want += [b_and(ind_total, kp[i], kp[j], t2[i][j]) for i in range(U) for j in range(U)]
    want += [b_and(ind_total, kp[i]) for i in range(U)]
    want += [b_and(ind_total, kp[i], lp2[i]) for i in range(U)]
    want += [b_and(ind_total, kp[i], s02[i]) for i in range(U)]
    r = d.differ(impl, want, bad)
    res = dict(kind=what, univ=u, fixed=fixed, verdict=r, encode_s=round(t1 - t0, 2), exc=kinds, encoded=encoded, shared=shared)
    if r == 'sat':
        res['model'] = d.differ_model(impl, want, bad)
    res['twin'] = d.holds(b_not(raised_rt), impl[1]) if what != 'clone' else d.holds(impl[1])
    res['audit'] = d.audit(batch=1000)
    res.update(d.stats())
    d.close()
    return res


C14_REPLAY = '''
from pyModelChecking import Kripke
U = 3
u = %(univ)r
kind = %(kind)r
m = %(m)r
val = lambda k: bool(m.get(k, False))
S = [u[i] for i in range(U) if val('s_%%d' %% i)] if kind == 'ctor' else list(u)
R = [(u[i], u[j]) for i in range(U) for j in range(U) if val('t_%%d_%%d' %% (i, j))]
S0 = [u[i] for i in range(U) if val('s0_%%d' %% i)] + (['zz'] if kind == 'ctor' else [])
L = {u[i]: ({'p'} if val('lp_%%d' %% i) else set()) for i in range(U) if kind != 'ctor' or val('lk_%%d' %% i)}
nodes = set(S) | {a for a, b in R} | {b for a, b in R}
total = all(any(a == x for a, b in R) for x in nodes)
bad = []
def expect_rt(f, what):
    try:
        f()
    except RuntimeError:
        return
    except Exception as e:
        bad.append('%%s raised %%s instead of RuntimeError' %% (what, type(e).__name__)); return
    bad.append('%%s did not raise RuntimeError' %% what)
try:
    K = Kripke(S=S, S0=S0, R=R, L=L)
    built = True
except RuntimeError:
    built = False
except Exception as e:
    built = None; bad.append('constructor raised %%s' %% type(e).__name__)
if built is not None and built != total: bad.append('constructed=%%s but relation total=%%s' %% (built, total))
def same(C, keep, what):
    if set(C.states()) != keep: bad.append('%%s: states %%s expected %%s' %% (what, set(C.states()), keep))
    if set(C.transitions()) != {(a, b) for (a, b) in R if a in keep and b in keep}: bad.append('%%s: transitions %%s' %% (what, C.transitions()))
    for x in keep:
        if x in set(C.states()) and C.labels(x) != L.get(x, set()): bad.append('%%s: labels(%%s)=%%s expected %%s' %% (what, x, C.labels(x), L.get(x, set())))
        if C is not K and x in set(C.states()) and C.labels(x) is K.labels(x): bad.append('%%s: label set of %%s shared' %% (what, x))
    if set(C.S0) != (set(S0) & keep): bad.append('%%s: S0 %%s' %% (what, C.S0))
if built:
    if kind == 'ctor':
        same(K, nodes, 'constructed')
        for x in list(u) + ['zz']:
            if x not in nodes:
                expect_rt(lambda: K.labels(x), 'labels(%%r)' %% (x,)); expect_rt(lambda: K.next(x), 'next(%%r)' %% (x,))
        for x in nodes:
            if x in L and K.labels(x) is L[x]: bad.append('label set of %%s is the caller\\'s object' %% (x,))
        L2 = {u[i]: {'r'} for i in range(U) if val('s0_%%d' %% i)}
        L2['zz'] = {'r'}
        K.replace_labelling_function(L2)
        for x in list(u) + ['zz']:
            if x not in nodes:
                expect_rt(lambda: K.labels(x), 'labels(%%r) after replace_labelling_function' %% (x,))
            elif K.labels(x) != ({'r'} if val('s0_%%d' %% u.index(x)) else set()):
                bad.append('labels(%%r) after replace_labelling_function = %%s' %% (x, K.labels(x)))
    elif kind == 'clone':
        same(K.clone(), nodes, 'clone')
    else:
        V = {u[i] for i in range(U) if val('v_%%d' %% i)} | ({'zz'} if val('v_3') else set())
        keep = V & nodes
        ind_total = all(any(a == x and b in keep for a, b in R) for x in keep)
        try:
            C = K.get_substructure(set(V)); ok = True
        except RuntimeError:
            ok = False
        except Exception as e:
            ok = None; bad.append('get_substructure raised %%s' %% type(e).__name__)
        if ok is not None and ok != ind_total: bad.append('get_substructure succeeded=%%s but induced relation total=%%s' %% (ok, ind_total))
        if ok: same(C, keep, 'substructure(%%s)' %% sorted(map(str, V)))
print('S=%%s S0=%%s R=%%s L=%%s' %% (S, S0, R, L))
if bad:
    print('VIOLATION of C14:', bad); sys.exit(1)
print('no violation on this input')
'''


def c14_replay(res):
    m = dict(res['model'])
    for k, v in (res.get('fixed') or {}).items():
        m[k] = v
    path = write_replay('C14', C14_REPLAY % dict(kind=res['kind'] if res['kind'] in ('ctor', 'clone') else 'sub', m=m, univ=list(res.get('univ') or [0, 1, 2])))
    ok, out = run_replay(path)
    return (path if ok else None), out
