"""Drivers for the model-checking properties."""
import itertools, random, time
from .common import pmap, rng, SEED, chunks
from . import mc, formulas
from .p_graph import TRUSTED


def validate_mc(rep, logic, count, ns=(1, 2, 3, 4)):
    """translator validation: evaluator with every unknown constant vs the natively running checker"""
    from . import see, explicit
    from .harness import sym_kripke
    import importlib
    mcmod = importlib.import_module('pyModelChecking.%s.model_checking' % logic)
    from pyModelChecking import Kripke
    r = rng('val-' + logic)
    pool = {'CTL': formulas.ctl_phi1() + formulas.ctl_pairs()[::7],
            'LTL': ['A %s' % formulas.par(x) for x in formulas.ltl_level1(formulas.ATOMS2)],
            'CTLS': formulas.ctl_phi1()[::3] + ['A %s' % formulas.par(x) for x in formulas.ltl_level1(formulas.ATOMS2)][::2]}[logic]
    ok = 0
    for k in range(count):
        n = r.choice(ns)
        S = explicit.rand_struct(r, n)
        ftxt = r.choice(pool)
        fixed = {'t_%d_%d' % (i, j): ((i, j) in S.R) for i in range(n) for j in range(n)}
        fixed.update({'l_%s_%d' % (a, i): (a in S.L[i]) for a in 'pq' for i in range(n)})
        see.reset()
        try:
            f = mc.parse(logic, ftxt)
            h = sym_kripke(n, mods=mc.LOGIC_MODS[logic], fold=False, care_total=False, fixed=fixed, bounds=mc.bounds_for(n, logic))
            res = h.ctx.call(mcmod.modelcheck, [h.K, f], {})
            mine = {i for i, g in enumerate(mc.vec(res, range(n))) if g is True}
            sym_exc = [type(e).__name__ for g, e, _ in h.fr.exc if g is not False]
        except see.Unsupported as e:
            rep.inconclusive('translator validation: %s on %s: Unsupported %s' % (logic, ftxt, e))
            continue
        try:
            real = mcmod.modelcheck(Kripke(S=range(n), R=sorted(S.R), L={i: set(S.L[i]) for i in range(n)}), ftxt)
            real_exc = []
        except Exception as e:
            real, real_exc = None, [type(e).__name__]
        if (real_exc and sym_exc and real_exc[-1] == sym_exc[-1]) or (not real_exc and not sym_exc and mine == real):
            ok += 1
        else:
            rep.inconclusive('translator validation failed: %s %s on R=%s L=%s: evaluator %s/%s native %s/%s' % (
                logic, ftxt, sorted(S.R), S.L, mine, sym_exc, real, real_exc))
    rep.cov['traces_validated_against_impl'] += ok
    return ok


def absorb_mc(rep, pid, recs, aspects, describe, need_nontrivial=False):
    """fold per-formula records into the report. aspects: which sub-verdicts this property claims."""
    for rec in recs:
        key = '%s n=%d %s%s%s%s' % (rec['logic'], rec['n'], rec['formula'], '' if rec.get('fold', True) else ' raw',
                                    (' order=%s' % rec['perm']) if rec.get('perm') else '',
                                    (' fork=%s' % ''.join('1' if v else '0' for v in rec['fixed'].values())) if rec.get('fixed') else '')
        if rec.get('verdict') == 'unsupported':
            rep.inconclusive('%s: %s' % (key, rec['error']))
            rep.obligation(key, 'unsupported')
            continue
        rep.encoded_add(rec.get('encoded', ()))
        verdicts = {a: rec.get(a) for a in aspects if rec.get(a) is not None}
        worst = 'unsat'
        for a, v in verdicts.items():
            if v != 'unsat':
                worst = v if worst == 'unsat' or v == 'sat' else worst
        sample = dict(obligation=describe, formula=rec['formula'], n=rec['n'], verdicts=verdicts, encode_s=rec.get('encode_s'),
                      solver_s=rec.get('solver_s'), gates=rec.get('gates'), distinct_functions=rec.get('functions'),
                      loops=rec.get('loops'), audit=rec.get('audit'), order=rec.get('perm'), forked=len(rec.get('fixed') or {}),
                      oracle=rec.get('oracle'))
        rep.obligation(key, worst, rec.get('solver_s', 0), rec.get('queries', 0), sample, nontrivial=rec.get('nontrivial', True))
        if rec.get('skipped'):
            continue
        if rec.get('care_sat') != 'sat':
            rep.inconclusive('%s: the totality assumption is %s (vacuous run)' % (key, rec.get('care_sat')))
        if 'verdict' in aspects and rec.get('verdict') == 'sat':
            path, out = mc.mc_replay(pid, rec)
            if path:
                rep.violation('%s: result differs from the reference semantics; reproduces natively: %s' % (key, out.strip().splitlines()[-4:-1]), path)
            else:
                rep.inconclusive('%s: counterexample does not reproduce natively: %s' % (key, out[-300:]))
        if 'noexc' in aspects and rec.get('noexc') == 'sat':
            path, out = mc.mc_replay(pid, rec, rec.get('exc_model'))
            if path:
                rep.violation('%s: raises %s; reproduces natively: %s' % (key, rec.get('exc'), out.strip().splitlines()[-4:-1]), path)
            else:
                rep.inconclusive('%s: exception %s does not reproduce natively: %s' % (key, rec.get('exc'), out[-300:]))
        for a in ('pure', 'isset', 'recall', 'unwind', 'stable'):
            if a in aspects and rec.get(a) not in (None, 'unsat'):
                rep.inconclusive('%s: aspect %s is %s' % (key, a, rec.get(a)))
        if 'pure' in aspects and (rec.get('shared') or rec.get('formula_changed')):
            rep.inconclusive('%s: shared=%s formula_changed=%s' % (key, rec.get('shared'), rec.get('formula_changed')))
        a = rec.get('audit')
        if a:
            rep.cov['audit_rewrites_total'] = rep.cov.get('audit_rewrites_total', 0) + a['total']
            rep.cov['audit_rewrites_reproved'] = rep.cov.get('audit_rewrites_reproved', 0) + a['checked']
            if a['failed']:
                rep.inconclusive('%s: simplifier lemma batch not re-proved' % key)
        c = rec.get('cross')
        if c:
            rep.cov.setdefault('cross_solver', {})
            for k, v in c.items():
                rep.cov['cross_solver'].setdefault(k, {}).setdefault(v if v in ('agree', 'absent') else 'other', 0)
                rep.cov['cross_solver'][k][v if v in ('agree', 'absent') else 'other'] += 1
                if v not in ('agree', 'absent'):
                    rep.inconclusive('%s: %s %s' % (key, k, v))


def label_forks(n, aps=('p', 'q')):
    names = ['l_%s_%d' % (a, i) for a in aps for i in range(n)]
    for vals in itertools.product([False, True], repeat=len(names)):
        yield dict(zip(names, vals))


def run_c01(rep, tier):
    rep.assumptions += ['total Kripke structures with n states 0..n-1 over atoms {p,q}; formulas from the stated sets (enumeration of programs)',
                        'states/labels outside the bound, other state types: see C06/C19']
    rep.cov['trusted_base'] = TRUSTED
    rep.cov['explanation'] = ('CTL.modelcheck and everything below it (rewriting natively, _check*, Kripke/DiGraph methods, compute_SCCs) '
                              'executed symbolically on a structure whose n*n transition bits and 2n label bits are unknowns; per formula one '
                              'merged run covers every total structure of the bound; z3 proves result vector == CTL fixpoint oracle circuit, '
                              'no exception, loops fully unrolled')
    validate_mc(rep, 'CTL', 60 if tier == 'quick' else 200)
    tasks = []
    q1 = formulas.ctl_phi1()
    q2 = formulas.ctl_phi2_quick() if tier == 'quick' else formulas.ctl_phi2_full()
    raw = ['p', 'true', 'not p', '(p or q)', '(p --> q)', 'E X p', 'A X p', 'E(p U q)', 'E F p', 'A G p', 'E G p', 'A F p', 'A(p R q)']
    if tier == 'thorough':
        raw += ['A(p U q)', 'E(p R q)']
    tasks += [('CTL', 2, [x], dict(fold=False, audit=False, timeout_ms=900000)) for x in raw]      # raw circuits, no simplifier
    tasks += [('CTL', 1, ch, {}) for ch in chunks(q1, 48)]
    tasks += [('CTL', 2, ch, {}) for ch in chunks(q1, 24)]
    tasks += [('CTL', 3, ch, {}) for ch in chunks(q1 + formulas.ctl_pairs() + q2, 12)]
    nforms = len(q1) + len(formulas.ctl_pairs()) + len(q2)
    if tier == 'thorough':
        tasks += [('CTL', 3, ch, {}) for ch in chunks(formulas.ctl_depth3_one_atom(), 12)]
        nforms += len(formulas.ctl_depth3_one_atom())
        n4 = formulas.CTL_SINGLE + formulas.ctl_pairs()[::5]
        r = rng('c01-n4')
        for fx in label_forks(4):
            tasks.append(('CTL', 4, n4 if False else r.sample(n4, 6), dict(fixed=fx, audit=False)))
    else:
        r = rng('c01-n4q')
        forks = list(label_forks(4))
        for fx in r.sample(forks, 16):
            tasks.append(('CTL', 4, r.sample(formulas.CTL_SINGLE[7:], 3), dict(fixed=fx, audit=False)))
    rep.cov['bounds'].update(n='1..3 fully merged (15 unknowns at n=3); n=4 with the 8 label bits forked (%s)' % ('all 256 forks x 6 sampled formulas' if tier == 'thorough' else '16 seeded forks x 3 formulas'),
                             formulas=nforms, formula_sets='Phi_1 over {p,q,true,false}; operator pairs; depth-2 with one deep child' + ('; depth 3 over one atom' if tier == 'thorough' else ''),
                             loop_bounds='get_reachable_set_from n+1, compute_SCCs n*n+n+1; remaining-iteration guards are obligations', no_fold='n=2, %d single-operator formulas' % len(raw))
    structures = 0
    for t, st, recs, secs in pmap(mc.mc_task, tasks):
        if st != 'ok':
            rep.inconclusive('task %s %s: %s' % (t[0], t[2][:2], recs))
            continue
        absorb_mc(rep, 'C01', recs, ('verdict', 'noexc', 'unwind'), 'CTL.modelcheck(K, f) == CTL semantics on every total K with n states')
        for rec in recs:
            if rec.get('verdict') == 'unsat' and not rec.get('skipped'):
                structures += 1
    rep.cov['programs'] = nforms
    rep.cov['states'] = structures
    rep.cov['transitions'] = structures
    rep.cov['states_meaning'] = '(formula, bound) pairs decided unsat; each covers every total structure of its bound (7^3*2^6 = 21,952 at n=3)'


# ------------------------------------------------------------------ C02 / C03
def ltl_sets(tier):
    lv = formulas.ltl_paths(3 if True else 2)
    quick = ['A %s' % formulas.par(g) for g in formulas.ATOMS4 + formulas.ltl_level1(formulas.ATOMS4) + lv[2]]
    r = rng('ltl-e3')
    deep = r.sample(lv[3], 400)
    return quick, ['A %s' % formulas.par(g) for g in deep]


def with_e(ftxts, logic='LTL'):
    out = []
    for t in ftxts:
        f = mc.parse(logic, t)
        out.append((formulas.count_elementary(f.subformula(0)), t))
    return out


def run_c02(rep, tier):
    rep.assumptions += ['total Kripke structures with n<=2 (3 thorough) states over atoms {p,q}; path formulas from the stated sets, cut by the number of elementary formulas e (the tableau has n*2^e nodes)',
                        'reference = product with assignments to elementary formulas + Emerson-Lei; unrolling depth found on a reduced twin, stability of every fixpoint proved by the solver',
                        'fixed tree at commit a1b7f49 or later (two tableau defects repaired, see known_findings.json)']
    rep.cov['trusted_base'] = TRUSTED
    rep.cov['explanation'] = ('LTL.modelcheck incl. _get_closure, _build_atoms (the list that grows while iterated), _TableuAtom, _Tableu, SCCs, reversal and '
                              'reachability executed symbolically on a structure with unknown transitions/labels; per formula one merged run covers every total '
                              'structure of the bound; z3 proves result == product oracle circuit; excluded states of the oracle are certified by a concrete lasso '
                              'checked with an independent lasso evaluator')
    validate_mc(rep, 'LTL', 40 if tier == 'quick' else 150, ns=(1, 2, 3))
    quick, deep = ltl_sets(tier)
    we = with_e(quick)
    deep_e = with_e(deep[:120 if tier == 'quick' else 400])
    e3 = [t for e, t in deep_e if e == 3]
    e4 = [t for e, t in deep_e if e == 4]
    tasks = []
    small = [t for e, t in we]
    tasks += [('LTL', 1, ch, {}) for ch in chunks(small, 40)]
    tasks += [('LTL', 2, ch, {}) for ch in chunks([t for e, t in we if e <= 1], 16)]
    tasks += [('LTL', 2, ch, {}) for ch in chunks([t for e, t in we if e == 2], 4)]
    ne3 = 12 if tier == 'quick' else 60
    tasks += [('LTL', 2, [t], {}) for t in e3[:ne3]]
    tasks += [('LTL', 1, ch, {}) for ch in chunks(e3[:40] + e4[:20], 10)]
    nforms = len(small) + ne3
    if tier == 'thorough':
        tasks += [('LTL', 2, [t], {}) for t in e4[:6]]
        n3 = [t for e, t in we if e <= 1][:80]
        tasks += [('LTL', 3, [t], {}) for t in n3]
    rep.cov['bounds'].update(n='1..2' + (' ; n=3 for 80 formulas with e<=1' if tier == 'thorough' else ''), formulas=nforms,
                             formula_sets='A g for g in: atoms, depth 1 over {p,q,true,false}, depth 2 over {p,q} (e<=2), %d seeded depth-3 formulas with e=3' % ne3,
                             loop_bounds='folded runs: loops unroll until no input needs another iteration; every loop-terminating fold is re-proved by the solver',
                             no_fold='not available for the tableau: without reduction the closure worklist becomes symbolic-length and sorted() of it is outside the evaluator; the simplifier is audited by re-proved rewrite lemmas here and by the raw runs of C01/C12/C13')
    done = 0
    certs = 0
    for t, st, recs, secs in pmap(mc.mc_task, tasks, mem_heavy=(tier == 'thorough')):
        if st != 'ok':
            rep.inconclusive('task %s n=%s %s: %s' % (t[0], t[1], t[2][:2], recs))
            continue
        absorb_mc(rep, 'C02', recs, ('verdict', 'noexc', 'unwind', 'stable'), 'LTL.modelcheck(K, A g) == {s : every path from s satisfies g} on every total K with n states')
        done += sum(1 for r in recs if r.get('verdict') == 'unsat')
    # lasso certificates for the oracle's exclusions
    cert_forms = [t for e, t in we][::(9 if tier == 'quick' else 2)]
    for t, st, r, secs in pmap(mc.certify_task, [(ch,) for ch in chunks(cert_forms, 10)]):
        if st != 'ok':
            rep.inconclusive('lasso certificates: %s' % r)
            continue
        for c in r:
            certs += c['certified']
            if c['failed']:
                rep.inconclusive('oracle exclusion without lasso certificate: %s' % c)
        if r and len(rep.cov['samples']) < 14:
            rep.cov['samples'].append(dict(lasso_certificate=r[0]))
    rep.cov['lasso_certificates'] = certs
    rep.cov['traces_validated_against_impl'] += 0
    rep.cov['programs'] = nforms
    rep.cov['states'] = done
    rep.cov['transitions'] = done
    rep.cov['states_meaning'] = '(formula, n) pairs decided unsat; each covers every total structure with n states over {p,q}'


def ctls_set(tier):
    P = formulas.par
    l1 = formulas.ltl_level1(formulas.ATOMS2)
    out = []
    out += ['%s %s' % (q, P(g)) for q in 'AE' for g in l1]                                   # one quantifier, one operator (CTL fast path)
    inner = ['A X q', 'E G q', 'E (p U q)', 'A F p', 'E X p', 'A (p R q)']
    for g in ['X %s', 'F %s', 'G %s', '(p U %s)', '(%s U p)', '(p R %s)', '(%s and X p)', '(not %s)', '(%s --> F q)']:
        for s in inner:
            for q in 'AE':
                out.append('%s %s' % (q, P(g % P(s))))                                         # quantifier nesting 2
    lv2 = formulas.ltl_paths(2)[2]
    r = rng('ctls-lv2')
    for g in r.sample(lv2, 90 if tier == 'quick' else 300):
        out.append('%s %s' % (r.choice('AE'), P(g)))                                           # two path operators under one quantifier: LTL fallback
    out += ['(E F p and A G q)', '(A X p or E X q)', 'not E (F p and G q)', '(E F G p --> A G F p)', 'A (F G q --> E G p)', 'E (p U (A X q and X p))',
            'E F X q', 'A G F p', 'E G F p', 'E (F p and F q)', 'A (X p or X not p)', 'E (X p and X not p)', 'p', 'true', 'not q',
            '(p and A X E X q)', 'E X A X p', 'A F E G p', 'E (A G p U E G q)', 'A ((E X p) R q)', 'E not (p U q)', 'A not (p R q)', 'A (p --> X p)', 'E G (p --> X q)']
    return list(dict.fromkeys(out))


def run_c03(rep, tier):
    rep.assumptions += ['total Kripke structures with n<=2 (3 thorough) states over {p,q}; formulas: quantifier nesting <=2, <=3 temporal operators per quantifier, from the stated sets',
                        'reference = CTL* product oracle (state subformulas first); same stability obligations as C02']
    rep.cov['trusted_base'] = TRUSTED
    rep.cov['explanation'] = ('CTLS.modelcheck incl. the clone, fresh-atom labelling of the clone, the CTL fast path, the TypeError->LTL fallback and the E g = not A not g branch, '
                              'executed symbolically; per formula one merged run covers every total structure of the bound; z3 proves result == CTL* oracle circuit')
    validate_mc(rep, 'CTLS', 30 if tier == 'quick' else 120, ns=(1, 2, 3))
    fs = ctls_set(tier)
    tasks = [('CTLS', 1, ch, {}) for ch in chunks(fs, 30)]
    tasks += [('CTLS', 2, ch, {}) for ch in chunks(fs, 3)]
    if tier == 'thorough':
        small = [t for t in fs if formulas.temporal_ops(mc.parse('CTLS', t)) <= 2][:40]
        tasks += [('CTLS', 3, [t], {}) for t in small]
        tasks += [('CTLS', 2, ['A (G F p --> G F q)'], {})]          # e=4: ~9 min
    rep.cov['bounds'].update(n='1..2' + (' ; n=3 for 40 formulas with <=2 temporal operators' if tier == 'thorough' else ''), formulas=len(fs))
    done, fallback = 0, 0
    for t, st, recs, secs in pmap(mc.mc_task, tasks, mem_heavy=(tier == 'thorough')):
        if st != 'ok':
            rep.inconclusive('task %s n=%s %s: %s' % (t[0], t[1], t[2][:2], recs))
            continue
        absorb_mc(rep, 'C03', recs, ('verdict', 'noexc', 'unwind', 'stable'), 'CTLS.modelcheck(K, f) == CTL* semantics on every total K with n states')
        done += sum(1 for r in recs if r.get('verdict') == 'unsat')
        fallback += sum(1 for r in recs if any('LTL.model_checking.modelcheck' in x for x in r.get('encoded', ())))
    rep.cov['twins']['runs_that_encoded_the_LTL_fallback'] = fallback
    if not fallback:
        rep.inconclusive('no run took the LTL fallback (vacuity twin)')
    rep.cov['programs'] = len(fs)
    rep.cov['states'] = done
    rep.cov['transitions'] = done
    rep.cov['states_meaning'] = '(formula, n) pairs decided unsat; each covers every total structure with n states over {p,q}'


# ------------------------------------------------------------------ C15
FAIR_SAFE_UN = ['not %s', 'A X %s', 'E X %s', 'E F %s', 'A G %s']
FAIR_SAFE_BI = ['(%s and %s)', '(%s or %s)', '(%s --> %s)', 'E(%s U %s)', 'A(%s R %s)']
FAIR_EG_FORMS = ['E G p', 'A F p', 'A(p U q)', 'E(p R q)', 'A G E G p', 'E F A F q', 'not E G (p or q)', 'E(p U E G q)']


def fair_safe_set():
    at = formulas.ATOMS2
    l1 = [u % a for u in FAIR_SAFE_UN for a in at] + [b % (x, y) for b in FAIR_SAFE_BI for x in at for y in at]
    l2 = [u % formulas.par(s) for u in FAIR_SAFE_UN for s in l1[::2]]
    l2 += [b % (formulas.par(s), a) for b in FAIR_SAFE_BI for s in l1[::3] for a in at[:1]]
    l2 += [b % (a, formulas.par(s)) for b in FAIR_SAFE_BI for s in l1[1::3] for a in at[1:]]
    return at + l1 + l2


def run_c15(rep, tier):
    from . import findings
    rep.assumptions += ['total structures with n<=3 states; |F|<=2 fairness sets (all subsets, symbolic); Boolean constants excluded from formulas (the property does not fix their fair meaning)',
                        'open known findings D7-D10 (known_findings.json) are excluded by their class predicates and re-found natively on every run; everything outside the classes is decided',
                        '/repo at fix commit 3d1a560 or later (E R under fairness)']
    rep.cov['trusted_base'] = TRUSTED
    rep.cov['explanation'] = ('get_fair_states and CTL/CTLS.modelcheck(K,f,F) executed symbolically with symbolic fairness sets; oracle = Emerson-Lei fair-path semantics with atoms meaning '
                              '"p and a fair path starts here". Decided: get_fair_states subset-of-fair-states on every input; equality outside class D7; modelcheck == fair semantics outside '
                              'classes D7/D8; F=[] and F=[S] equal the unconstrained answer outside D7; no exception and K unchanged on every input incl. inside the classes')
    nk = findings.report_open(rep, 'C15')
    gone = set(rep.cov.get('findings_not_reproducing', []))
    d7 = findings.is_open('D7') and 'D7' not in gone
    d8 = findings.is_open('D8') and 'D8' not in gone
    d9 = findings.is_open('D9') and 'D9' not in gone
    d10 = findings.is_open('D10') and 'D10' not in gone
    # (a) get_fair_states
    ft = [(2, 0, None), (2, 1, None), (2, 2, None), (3, 0, None), (3, 1, None), (3, 2, None)]
    ft += [(3, 1, list(p)) for p in itertools.permutations(range(3)) if list(p) != [0, 1, 2]]
    for t, st, r, secs in pmap(mc.fair_states_task, ft):
        key = 'get_fair_states n=%d |F|=%d order=%s' % (t[0], t[1], t[2] or 'identity')
        if st != 'ok':
            rep.inconclusive('%s: %s' % (key, r))
            continue
        rep.encoded_add(r['encoded'])
        for asp, desc in (('sound', 'result is a subset of the states with a fair path; K unchanged; no exception (every input)'),
                          ('verdict', 'result == states with a fair path (inputs outside class D7)' if d7 else 'result == states with a fair path (every input)')):
            v = r[asp] if (asp != 'verdict' or d7) else r['all_inputs_exact']
            rep.obligation(key + ' ' + asp, v, r['solver_s'] / 2, r['queries'] // 2,
                           dict(obligation=desc, task=key, verdict=v, audit=r.get('audit'), gates=r['gates']))
            if v == 'sat':
                m = r.get('model') if (asp != 'verdict' or d7) else r.get('d7_model')
                path, out = mc.fair_replay(r, m, 'not (got <= want)' if asp == 'sound' else 'got != want')
                if path:
                    rep.violation('%s (%s): %s' % (key, asp, out.strip().splitlines()[-2:]), path)
                else:
                    rep.inconclusive('%s: counterexample does not reproduce natively %s' % (key, out[-200:]))
        if r['twin'] != 'sat':
            rep.inconclusive('%s: twin %s' % (key, r['twin']))
    # (b) modelcheck with F
    safe = fair_safe_set()
    egs = FAIR_EG_FORMS
    tasks = []
    base = dict(ctls_oracle=True, outside_d7=d7)
    exact_forms = safe + ([] if d8 else egs)
    for logic in ('CTL', 'CTLS'):
        base = dict(ctls_oracle=True, outside_d7=d7, assume_all_fair=(logic == 'CTLS' and d10))
        for nf in (1, 2):
            tasks += [(logic, 2, ch, dict(base, fair=nf)) for ch in chunks(exact_forms if logic == 'CTL' else exact_forms[::3], 12)]
        tasks += [(logic, 3, ch, dict(base, fair=1, aps=('p',))) for ch in chunks([x for x in exact_forms if 'q' not in x][::(1 if logic == 'CTL' else 3)], 6)]
        tasks += [(logic, 2, ch, dict(base, fair=0)) for ch in chunks(exact_forms[::4], 12)]              # F=[]: every path is fair
        tasks += [(logic, 2, ch, dict(base, fair=1, fair_const=True)) for ch in chunks(exact_forms[::4], 12)]   # F=[S]
    inside = [('CTL', 2, egs, dict(base, fair=1, only_safety=True)), ('CTLS', 2, egs, dict(base, fair=1, only_safety=True)),
              ('CTL', 2, egs + safe[:20], dict(base, fair=2, outside_d7=False, only_safety=True))]
    if d9:
        inside.append(('LTL', 2, ['A G p', 'A (p U q)'], dict(base, fair=1, outside_d7=False, only_safety=True, expect_typeerror=True)))
    else:
        tasks.append(('LTL', 2, ['A G p', 'A (p U q)', 'A F G p', 'A X p'], dict(base, fair=1)))
    rep.cov['bounds'].update(n='2 (|F| in 0,1,2; atoms p,q) and 3 (|F|=1, atom p)', formulas=len(exact_forms), inside_class_formulas=len(egs),
                             classes_excluded=[x for x, o in (('D7', d7), ('D8', d8), ('D9', d9), ('D10', d10)) if o])
    done = 0
    for t, st, recs, secs in pmap(mc.mc_task, tasks + inside):
        if st != 'ok':
            rep.inconclusive('task %s n=%s %s: %s' % (t[0], t[1], t[2][:2], recs))
            continue
        only_safety = t[3].get('only_safety')
        for rec in recs:
            rec['nfair'] = t[3].get('fair')
            rec['formula_key'] = rec['formula']
        if only_safety:
            for rec in recs:
                key = '%s n=%d |F|=%s %s (inside a known-finding class: no internal error, K unchanged)' % (rec['logic'], rec['n'], rec['nfair'], rec['formula'])
                if rec.get('verdict') == 'unsupported':
                    rep.inconclusive('%s: %s' % (key, rec['error']))
                    rep.obligation(key, 'unsupported')
                    continue
                rep.encoded_add(rec.get('encoded', ()))
                exc = rec.get('exc', [])
                v = 'unsat' if rec.get('pure') == 'unsat' and rec.get('unwind') == 'unsat' else 'sat'
                if t[3].get('expect_typeerror'):
                    ok = exc == ['TypeError']
                    rep.obligation(key, 'unsat' if ok and rec.get('pure') == 'unsat' else 'unknown', rec.get('solver_s', 0), rec.get('queries', 0),
                                   dict(obligation='LTL with F (known finding D9): raises TypeError only, K unchanged', formula=rec['formula'], exc=exc))
                    continue
                if rec.get('noexc') != 'unsat':
                    v = rec.get('noexc')
                rep.obligation(key, v, rec.get('solver_s', 0), rec.get('queries', 0),
                               dict(obligation='no internal error and K unchanged on every input (class members included)', formula=rec['formula'], exc=exc,
                                    verdicts=dict(noexc=rec.get('noexc'), pure=rec.get('pure'))))
                if rec.get('noexc') == 'sat':
                    path, out = mc.mcf_replay(rec, rec.get('exc_model') or {})
                    if path:
                        rep.violation('%s raises %s: %s' % (key, exc, out.strip().splitlines()[-3:]), path)
                    else:
                        rep.inconclusive('%s: exception does not reproduce natively' % key)
            continue
        for rec in recs:
            key = '%s n=%d |F|=%s%s %s' % (rec['logic'], rec['n'], rec['nfair'], ' F=[S]' if t[3].get('fair_const') else '', rec['formula'])
            if rec.get('verdict') == 'unsupported':
                rep.inconclusive('%s: %s' % (key, rec['error']))
                rep.obligation(key, 'unsupported')
                continue
            rep.encoded_add(rec.get('encoded', ()))
            aspects = {a: rec.get(a) for a in ('verdict', 'noexc', 'unwind', 'pure', 'stable')}
            worst = 'unsat'
            for a, v in aspects.items():
                if v != 'unsat':
                    worst = 'sat' if v == 'sat' else (worst if worst == 'sat' else v)
            rep.obligation(key, worst, rec.get('solver_s', 0), rec.get('queries', 0),
                           dict(obligation='modelcheck(K,f,F) == fair semantics' + (' (inputs outside class D7)' if d7 else ''), formula=rec['formula'],
                                n=rec['n'], nfair=rec['nfair'], verdicts=aspects, oracle=rec.get('oracle'), audit=rec.get('audit')))
            if worst == 'unsat':
                done += 1
            if rec.get('care_sat') != 'sat':
                rep.inconclusive('%s: assumptions unsatisfiable (vacuous)' % key)
            for a in ('verdict', 'noexc'):
                if rec.get(a) == 'sat':
                    m = rec.get('model') if a == 'verdict' else rec.get('exc_model')
                    path, out = mc.mcf_replay(rec, m or {})
                    if path:
                        rep.violation('%s (%s): %s' % (key, a, out.strip().splitlines()[-4:-1]), path)
                    else:
                        rep.inconclusive('%s: counterexample (%s) does not reproduce natively: %s' % (key, a, out[-200:]))
            for a in ('pure', 'unwind', 'stable'):
                if rec.get(a) not in (None, 'unsat'):
                    rep.inconclusive('%s: aspect %s is %s' % (key, a, rec.get(a)))
    rep.cov['programs'] = len(exact_forms) + len(egs)
    rep.cov['states'] = max(done, 1)
    rep.cov['transitions'] = max(done, 1)
    rep.cov['states_meaning'] = '(logic, formula, n, |F|) combinations decided unsat; each covers every total structure and every F of its bound (outside the listed classes)'
