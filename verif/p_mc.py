"""Drivers for the model-checking properties."""
import itertools, random, time
from .common import pmap, rng, SEED, chunks
from . import mc, formulas
from .p_graph import TRUSTED


def validate_mc(rep, logic, count, ns=(1, 2, 3, 4)):
    """translator validation: evaluator with every unknown constant vs the natively running checker"""
    from . import see, explicit
    from .harness import sym_kripke
    import importlib
    mcmod = importlib.import_module('pyModelChecking.%s.model_checking' % logic)
    from pyModelChecking import Kripke
    r = rng('val-' + logic)
    pool = {'CTL': formulas.ctl_phi1() + formulas.ctl_pairs()[::7],
            'LTL': ['A %s' % formulas.par(x) for x in formulas.ltl_level1(formulas.ATOMS2)],
            'CTLS': formulas.ctl_phi1()[::3] + ['A %s' % formulas.par(x) for x in formulas.ltl_level1(formulas.ATOMS2)][::2]}[logic]
    ok = 0
    for k in range(count):
        n = r.choice(ns)
        S = explicit.rand_struct(r, n)
        ftxt = r.choice(pool)
        fixed = {'t_%d_%d' % (i, j): ((i, j) in S.R) for i in range(n) for j in range(n)}
        fixed.update({'l_%s_%d' % (a, i): (a in S.L[i]) for a in 'pq' for i in range(n)})
        see.reset()
        try:
            f = mc.parse(logic, ftxt)
            h = sym_kripke(n, mods=mc.LOGIC_MODS[logic], fold=False, care_total=False, fixed=fixed, bounds=mc.bounds_for(n, logic))
            res = h.ctx.call(mcmod.modelcheck, [h.K, f], {})
            mine = {i for i, g in enumerate(mc.vec(res, range(n))) if g is True}
            sym_exc = [type(e).__name__ for g, e, _ in h.fr.exc if g is not False]
        except see.Unsupported as e:
            rep.inconclusive('translator validation: %s on %s: Unsupported %s' % (logic, ftxt, e))
            continue
        try:
            real = mcmod.modelcheck(Kripke(S=range(n), R=sorted(S.R), L={i: set(S.L[i]) for i in range(n)}), ftxt)
            real_exc = []
        except Exception as e:
            real, real_exc = None, [type(e).__name__]
        if (real_exc and sym_exc and real_exc[-1] == sym_exc[-1]) or (not real_exc and not sym_exc and mine == real):
            ok += 1
        else:
            rep.inconclusive('translator validation failed: %s %s on R=%s L=%s: evaluator %s/%s native %s/%s' % (
                logic, ftxt, sorted(S.R), S.L, mine, sym_exc, real, real_exc))
    rep.cov['traces_validated_against_impl'] += ok
    return ok


def absorb_mc(rep, pid, recs, aspects, describe, need_nontrivial=False):
    """fold per-formula records into the report. aspects: which sub-verdicts this property claims."""
    for rec in recs:
        key = '%s n=%d %s%s%s%s' % (rec['logic'], rec['n'], rec['formula'], '' if rec.get('fold', True) else ' raw',
                                    (' order=%s' % rec['perm']) if rec.get('perm') else '',
                                    (' fork=%s' % ''.join('1' if v else '0' for v in rec['fixed'].values())) if rec.get('fixed') else '')
        if rec.get('auxiliary') and (rec.get('verdict') in ('unsupported', 'unknown')):
            # un-reduced (raw) runs audit the simplifier; they do not decide the property: one that cannot be completed is recorded,
            # it neither passes nor fails anything (the reduced run of the same formula is the obligation)
            rep.cov.setdefault('auxiliary_raw_runs_not_completed', []).append('%s: %s' % (key, rec.get('error') or rec.get('verdict')))
            continue
        if rec.get('verdict') == 'unsupported':
            rep.inconclusive('%s: %s' % (key, rec['error']))
            rep.obligation(key, 'unsupported')
            continue
        rep.encoded_add(rec.get('encoded', ()))
        verdicts = {a: rec.get(a) for a in aspects if rec.get(a) is not None}
        worst = 'unsat'
        for a, v in verdicts.items():
            if v != 'unsat':
                worst = v if worst == 'unsat' or v == 'sat' else worst
        sample = dict(obligation=describe, formula=rec['formula'], n=rec['n'], verdicts=verdicts, encode_s=rec.get('encode_s'),
                      solver_s=rec.get('solver_s'), gates=rec.get('gates'), distinct_functions=rec.get('functions'),
                      loops=rec.get('loops'), audit=rec.get('audit'), order=rec.get('perm'), forked=len(rec.get('fixed') or {}),
                      oracle=rec.get('oracle'))
        rep.obligation(key, worst, rec.get('solver_s', 0), rec.get('queries', 0), sample, nontrivial=rec.get('nontrivial', True))
        if rec.get('skipped'):
            continue
        if rec.get('care_sat') != 'sat':
            rep.inconclusive('%s: the totality assumption is %s (vacuous run)' % (key, rec.get('care_sat')))
        if 'verdict' in aspects and rec.get('verdict') == 'sat':
            path, out = mc.mc_replay(pid, rec)
            if path:
                rep.violation('%s: result differs from the reference semantics; reproduces natively: %s' % (key, out.strip().splitlines()[-4:-1]), path)
            else:
                path2 = None
                if rec.get('formula_changed'):
                    # the evaluator saw the call rewrite the caller's formula object in place (the oracle, built from that object after
                    # the call, then describes another formula): natively, the same object passed twice must give the reference answer twice
                    body = ("f = mods[%r].Parser()(%r)\nr1 = run(%r, f, K)\nr2 = run(%r, f, K)\nwant = explicit.sat_states(explicit.Struct(n, R, L), CTLS.Parser()(%r))\n"
                            "print('first call ->', r1, '; second call with the same formula object ->', r2, '; reference ->', want, '; formula now:', f)\n"
                            "bad = [] if (isinstance(r2, set) and norm(r2) == want and isinstance(r1, set) and norm(r1) == want) else ['the same formula object passed twice: %%r then %%r, reference %%r' %% (r1, r2, want)]\n"
                            % (rec['logic'], rec['formula'], rec['logic'], rec['logic'], rec['formula']))
                    for mdl in (rec.get('model'), None):
                        path2, out2 = mc.gen_replay(pid, rec, mdl, body, {})
                        if path2:
                            break
                if path2:
                    rep.violation('%s: the call rewrites the formula object in place; passing it again gives a wrong answer: %s' % (key, out2.strip().splitlines()[-3:-1]), path2)
                else:
                    rep.inconclusive('%s: counterexample does not reproduce natively: %s' % (key, out[-300:]))
        if 'noexc' in aspects and rec.get('noexc') == 'sat':
            path, out = mc.mc_replay(pid, rec, rec.get('exc_model'))
            if path:
                rep.violation('%s: raises %s; reproduces natively: %s' % (key, rec.get('exc'), out.strip().splitlines()[-4:-1]), path)
            else:
                rep.inconclusive('%s: exception %s does not reproduce natively: %s' % (key, rec.get('exc'), out[-300:]))
        for a in ('pure', 'isset', 'recall', 'unwind', 'stable'):
            if a in aspects and rec.get(a) not in (None, 'unsat'):
                rep.inconclusive('%s: aspect %s is %s' % (key, a, rec.get(a)))
        if 'pure' in aspects and (rec.get('shared') or rec.get('formula_changed')):
            rep.inconclusive('%s: shared=%s formula_changed=%s' % (key, rec.get('shared'), rec.get('formula_changed')))
        a = rec.get('audit')
        if a:
            rep.cov['audit_rewrites_total'] = rep.cov.get('audit_rewrites_total', 0) + a['total']
            rep.cov['audit_rewrites_reproved'] = rep.cov.get('audit_rewrites_reproved', 0) + a['checked']
            if a.get('unproved'):
                rep.cov['audit_rewrites_unproved_within_budget'] = rep.cov.get('audit_rewrites_unproved_within_budget', 0) + a['unproved']
            if a['failed']:
                rep.inconclusive('%s: simplifier lemma batch not re-proved' % key)
        c = rec.get('cross')
        if c:
            rep.cov.setdefault('cross_solver', {})
            for k, v in c.items():
                tag = v if v in ('agree', 'absent', 'timeout', 'agree-or-unknown') else 'DISAGREE'
                rep.cov['cross_solver'].setdefault(k, {}).setdefault(tag, 0)
                rep.cov['cross_solver'][k][tag] += 1
                if tag == 'DISAGREE':
                    rep.inconclusive('%s: %s %s' % (key, k, v))


def label_forks(n, aps=('p', 'q')):
    names = ['l_%s_%d' % (a, i) for a in aps for i in range(n)]
    for vals in itertools.product([False, True], repeat=len(names)):
        yield dict(zip(names, vals))


def run_c01(rep, tier):
    rep.assumptions += ['total Kripke structures with n states 0..n-1 over atoms {p,q}; formulas from the stated sets (enumeration of programs)',
                        'states/labels outside the bound, other state types: see C06/C19']
    rep.cov['trusted_base'] = TRUSTED
    rep.cov['explanation'] = ('CTL.modelcheck and everything below it (rewriting natively, _check*, Kripke/DiGraph methods, compute_SCCs) '
                              'executed symbolically on a structure whose n*n transition bits and 2n label bits are unknowns; per formula one '
                              'merged run covers every total structure of the bound; z3 proves result vector == CTL fixpoint oracle circuit, '
                              'no exception, loops fully unrolled')
    validate_mc(rep, 'CTL', 60 if tier == 'quick' else 200)
    tasks = []
    q1 = formulas.ctl_phi1()
    q2 = formulas.ctl_phi2_quick() if tier == 'quick' else formulas.ctl_phi2_full()
    raw = ['p', 'true', 'not p', '(p or q)', '(p --> q)', 'E X p', 'A X p', 'E(p U q)', 'E F p', 'A G p', 'E G p', 'A F p', 'A(p R q)']
    if tier == 'thorough':
        raw += ['A(p U q)', 'E(p R q)']
    tasks += [('CTL', 2, [x], dict(fold=False, audit=False, timeout_ms=240000, auxiliary=True, time_limit=480)) for x in raw]      # raw circuits, no simplifier
    tasks += [('CTL', 1, ch, {}) for ch in chunks(q1, 48)]
    tasks += [('CTL', 2, ch, {}) for ch in chunks(q1, 24)]
    tasks += [('CTL', 3, ch, {}) for ch in chunks(q1 + formulas.ctl_pairs() + q2, 12)]
    nforms = len(q1) + len(formulas.ctl_pairs()) + len(q2)
    if tier == 'thorough':
        # a slice of the final queries is re-discharged by cvc5 1.0.3 and z3 4.8.12 on the recorded dialogue
        tasks += [('CTL', 3, ch, dict(cross=True, audit=False)) for ch in chunks(formulas.CTL_SINGLE + formulas.ctl_pairs()[::13], 4)]
        tasks += [('CTL', 3, ch, {}) for ch in chunks(formulas.ctl_depth3_one_atom(), 12)]
        nforms += len(formulas.ctl_depth3_one_atom())
        n4 = formulas.CTL_SINGLE + formulas.ctl_pairs()[::5]
        r = rng('c01-n4')
        for fx in label_forks(4):
            tasks.append(('CTL', 4, n4 if False else r.sample(n4, 6), dict(fixed=fx, audit=False)))
    else:
        # n=4, formulas that do not look at the labels: one fork covers every 4-state structure
        nolab = ['E G true', 'A F false', 'E G (p or not p)', 'A F (q and not q)', 'E(true U false)', 'A(true R true)', 'E X true', 'A G E X true', 'E(true R false)', 'A(false U true)']
        tasks.append(('CTL', 4, nolab[:5], dict(fixed={k_: False for k_ in list(label_forks(4))[0]}, audit=False)))
        tasks.append(('CTL', 4, nolab[5:], dict(fixed={k_: True for k_ in list(label_forks(4))[0]}, audit=False)))
        r = rng('c01-n4q')
        forks = list(label_forks(4))
        for fx in r.sample(forks, 16):
            tasks.append(('CTL', 4, r.sample(formulas.CTL_SINGLE[7:], 3), dict(fixed=fx, audit=False)))
        # n=4 completely (all 256 label forks x all 50,625 total relations) for the operators whose algorithms depend on cycle shapes
        for i in range(0, 256, 8):
            for fx in forks[i:i + 8]:
                tasks.append(('CTL', 4, ['E G p', 'A(p U q)', 'E(p R q)'], dict(fixed=fx, audit=False)))
    rep.cov['bounds'].update(n='1..3 fully merged (15 unknowns at n=3); n=4 with the 8 label bits forked (%s)' % ('all 256 forks x 6 sampled formulas' if tier == 'thorough' else 'all 256 forks for E G p, A(p U q), E(p R q); 16 seeded forks x 3 further formulas; label-free formulas'),
                             formulas=nforms, formula_sets='Phi_1 over {p,q,true,false}; operator pairs; depth-2 with one deep child' + ('; depth 3 over one atom' if tier == 'thorough' else ''),
                             loop_bounds='get_reachable_set_from n+1, compute_SCCs n*n+n+1; remaining-iteration guards are obligations', no_fold='n=2, %d single-operator formulas' % len(raw))
    structures = 0
    for t, st, recs, secs in pmap(mc.mc_task, tasks):
        if st != 'ok':
            rep.inconclusive('task %s %s: %s' % (t[0], t[2][:2], recs))
            continue
        absorb_mc(rep, 'C01', recs, ('verdict', 'noexc', 'unwind'), 'CTL.modelcheck(K, f) == CTL semantics on every total K with n states')
        for rec in recs:
            if rec.get('verdict') == 'unsat' and not rec.get('skipped'):
                structures += 1
    rep.cov['programs'] = nforms
    rep.cov['states'] = structures
    rep.cov['transitions'] = structures
    rep.cov['states_meaning'] = '(formula, bound) pairs decided unsat; each covers every total structure of its bound (7^3*2^6 = 21,952 at n=3)'


# ------------------------------------------------------------------ C02 / C03
def ltl_sets(tier):
    lv = formulas.ltl_paths(3 if True else 2)
    nary = ['(p or q or X p)', '(p and q and X q)', '(p or q or (not p))', '(p and (not p) and q)', 'G (p or q or X p)', 'X (p and q and F p)', '((p or q or X q) U (p and q and p))',
            '(F p or G q or X p)', '(p or q or p or X q)', 'not (p and q and G p)', 'G ((not p) or (not q) or X p)', '(p and q and (p U q))']
    un = formulas.LTL_UN
    chains = [u1 % formulas.par(u2 % formulas.par(u3 % a)) for u1 in un for u2 in un for u3 in un for a in ('p', 'q')]
    chains += [u1 % formulas.par(u2 % (b % ab)) for u1 in un for u2 in un for b in formulas.LTL_BI for ab in (('p', 'q'), ('q', 'p'))]
    quick = ['A %s' % formulas.par(g) for g in formulas.ATOMS4 + formulas.ltl_level1(formulas.ATOMS4) + lv[2] + nary + chains]
    r = rng('ltl-e3')
    deep = r.sample(lv[3], 400)
    return quick, ['A %s' % formulas.par(g) for g in deep]


def with_e(ftxts, logic='LTL'):
    out = []
    for t in ftxts:
        f = mc.parse(logic, t)
        out.append((formulas.count_elementary(f.subformula(0)), t))
    return out


def run_c02(rep, tier):
    rep.assumptions += ['total Kripke structures with n<=2 states over atoms {p,q} (n=3 for five one-operator formulas; 85 formulas in the thorough tier); path formulas from the stated sets, cut by the number of elementary formulas e (the tableau has n*2^e nodes)',
                        'reference = product with assignments to elementary formulas + Emerson-Lei; unrolling depth found on a reduced twin, stability of every fixpoint proved by the solver',
                        'fixed tree at commit a1b7f49 or later (two tableau defects repaired, see known_findings.json)']
    rep.cov['trusted_base'] = TRUSTED
    rep.cov['explanation'] = ('LTL.modelcheck incl. _get_closure, _build_atoms (the list that grows while iterated), _TableuAtom, _Tableu, SCCs, reversal and '
                              'reachability executed symbolically on a structure with unknown transitions/labels; per formula one merged run covers every total '
                              'structure of the bound; z3 proves result == product oracle circuit; excluded states of the oracle are certified by a concrete lasso '
                              'checked with an independent lasso evaluator')
    validate_mc(rep, 'LTL', 40 if tier == 'quick' else 150, ns=(1, 2, 3))
    quick, deep = ltl_sets(tier)
    we = with_e(quick)
    deep_e = with_e(deep[:120 if tier == 'quick' else 400])
    e3 = [t for e, t in deep_e if e == 3]
    e4 = [t for e, t in deep_e if e == 4]
    tasks = []
    small = [t for e, t in we]
    tasks += [('LTL', 1, ch, {}) for ch in chunks(small, 40)]
    tasks += [('LTL', 2, ch, {}) for ch in chunks([t for e, t in we if e <= 1], 16)]
    tasks += [('LTL', 2, ch, {}) for ch in chunks([t for e, t in we if e == 2], 4)]
    ne3 = 12 if tier == 'quick' else 60
    tasks += [('LTL', 2, [t], {}) for t in e3[:ne3]]
    tasks += [('LTL', 1, ch, {}) for ch in chunks(e3[:40] + e4[:20], 10)]
    nforms = len(small) + ne3
    # three states: one formula per temporal operator in the quick tier (they start first: each takes 10-180 s and ~3 GB)
    n3q = ['A (p U q)', 'A (p R q)', 'A G p', 'A F p', 'A X p']
    tasks = [('LTL', 3, [t], dict(audit=False, timeout_ms=1500000)) for t in n3q] + tasks      # (z3 needs ~150 s for U/R on a quiet machine)
    if tier == 'thorough':
        tasks += [('LTL', 2, [t], {}) for t in e4[:6]]
        n3 = [t for e, t in we if e <= 1 and t not in n3q][:80]
        tasks += [('LTL', 3, [t], dict(timeout_ms=1500000)) for t in n3]
    rep.cov['bounds'].update(n='1..2; n=3 for %s' % ', '.join(n3q) + (' and 80 further formulas with e<=1' if tier == 'thorough' else ''), formulas=nforms,
                             formula_sets='A g for g in: atoms, depth 1 over {p,q,true,false}, depth 2 over {p,q} (e<=2), %d seeded depth-3 formulas with e=3' % ne3,
                             loop_bounds='folded runs: loops unroll until no input needs another iteration; every loop-terminating fold is re-proved by the solver',
                             no_fold='not available for the tableau: without reduction the closure worklist becomes symbolic-length and sorted() of it is outside the evaluator; the simplifier is audited by re-proved rewrite lemmas here and by the raw runs of C01/C12/C13')
    done = 0
    certs = 0
    for t, st, recs, secs in pmap(mc.mc_task, tasks, mem_heavy=(tier == 'thorough')):
        if st != 'ok':
            rep.inconclusive('task %s n=%s %s: %s' % (t[0], t[1], t[2][:2], recs))
            continue
        absorb_mc(rep, 'C02', recs, ('verdict', 'noexc', 'unwind', 'stable'), 'LTL.modelcheck(K, A g) == {s : every path from s satisfies g} on every total K with n states')
        done += sum(1 for r in recs if r.get('verdict') == 'unsat')
    # lasso certificates for the oracle's exclusions
    cert_forms = [t for e, t in we][::(9 if tier == 'quick' else 2)]
    for t, st, r, secs in pmap(mc.certify_task, [(ch,) for ch in chunks(cert_forms, 10)]):
        if st != 'ok':
            rep.inconclusive('lasso certificates: %s' % r)
            continue
        for c in r:
            certs += c['certified']
            if c['failed']:
                rep.inconclusive('oracle exclusion without lasso certificate: %s' % c)
        if r and len(rep.cov['samples']) < 14:
            rep.cov['samples'].append(dict(lasso_certificate=r[0]))
    rep.cov['lasso_certificates'] = certs
    rep.cov['traces_validated_against_impl'] += 0
    rep.cov['programs'] = nforms
    rep.cov['states'] = done
    rep.cov['transitions'] = done
    rep.cov['states_meaning'] = '(formula, n) pairs decided unsat; each covers every total structure with n states over {p,q}'


def ctls_set(tier):
    P = formulas.par
    l1 = formulas.ltl_level1(formulas.ATOMS2)
    out = []
    out += ['%s %s' % (q, P(g)) for q in 'AE' for g in l1]                                   # one quantifier, one operator (CTL fast path)
    inner = ['A X q', 'E G q', 'E (p U q)', 'A F p', 'E X p', 'A (p R q)']
    for g in ['X %s', 'F %s', 'G %s', '(p U %s)', '(%s U p)', '(p R %s)', '(%s and X p)', '(not %s)', '(%s --> F q)']:
        for s in inner:
            for q in 'AE':
                out.append('%s %s' % (q, P(g % P(s))))                                         # quantifier nesting 2
    lv2 = formulas.ltl_paths(2)[2]
    r = rng('ctls-lv2')
    for g in r.sample(lv2, 90 if tier == 'quick' else 300):
        out.append('%s %s' % (r.choice('AE'), P(g)))                                           # two path operators under one quantifier: LTL fallback
    # n-ary connectives directly under a quantifier (every operand must count); the e>=4 ones take minutes each: thorough only
    out += ['E (G p or F q or X p)', 'A (G p or F q or X q)', 'A (F p and X q and q)', '(E X p or E X q or A G p)', 'E (X p or X q or X (p and q))', 'E (p or q or X p)',
            'A (p and q and X q)', 'E (X p or q or p)', 'A (X q or X p or p)', 'E (F p and G q and p)']
    if tier == 'thorough':
        out += ['E (X p and F q and G (p or q))', 'A (p or X q or F p or G q)', 'E ((p or q or X p) U (p and q and X q))', 'A ((X p or F q or q) R p)']
    out += ['(E F p and A G q)', '(A X p or E X q)', 'not E (F p and G q)', '(E F G p --> A G F p)', 'A (F G q --> E G p)', 'E (p U (A X q and X p))',
            'E F X q', 'A G F p', 'E G F p', 'E (F p and F q)', 'A (X p or X not p)', 'E (X p and X not p)', 'p', 'true', 'not q',
            '(p and A X E X q)', 'E X A X p', 'A F E G p', 'E (A G p U E G q)', 'A ((E X p) R q)', 'E not (p U q)', 'A not (p R q)', 'A (p --> X p)', 'E G (p --> X q)']
    return list(dict.fromkeys(out))


def run_c03(rep, tier):
    rep.assumptions += ['total Kripke structures with n<=2 states over {p,q} (n=3 for two non-CTL formulas; 42 formulas in thorough); formulas: quantifier nesting <=2, <=3 temporal operators per quantifier, from the stated sets',
                        'reference = CTL* product oracle (state subformulas first); same stability obligations as C02']
    rep.cov['trusted_base'] = TRUSTED
    rep.cov['explanation'] = ('CTLS.modelcheck incl. the clone, fresh-atom labelling of the clone, the CTL fast path, the TypeError->LTL fallback and the E g = not A not g branch, '
                              'executed symbolically; per formula one merged run covers every total structure of the bound; z3 proves result == CTL* oracle circuit')
    validate_mc(rep, 'CTLS', 30 if tier == 'quick' else 120, ns=(1, 2, 3))
    fs = ctls_set(tier)
    tasks = [('CTLS', 1, ch, {}) for ch in chunks(fs, 30)]
    tasks += [('CTLS', 2, ch, {}) for ch in chunks(fs, 3)]
    # three states: two formulas that are NOT CTL (they take the LTL route; 2-3.5 min each, started first)
    n3q = ['A X (p U q)', 'E G F p']
    tasks = [('CTLS', 3, [x], dict(audit=False, timeout_ms=1500000)) for x in n3q] + tasks
    if tier == 'thorough':
        small = [t for t in fs if formulas.temporal_ops(mc.parse('CTLS', t)) <= 2 and t not in n3q][:40]
        tasks += [('CTLS', 3, [t], dict(timeout_ms=1500000)) for t in small]
        tasks += [('CTLS', 2, ['A (G F p --> G F q)'], {})]          # e=4: ~9 min
    rep.cov['bounds'].update(n='1..2; n=3 for %s' % ', '.join(n3q) + (' and 40 formulas with <=2 temporal operators' if tier == 'thorough' else ''), formulas=len(fs))
    done, fallback = 0, 0
    for t, st, recs, secs in pmap(mc.mc_task, tasks, mem_heavy=(tier == 'thorough')):
        if st != 'ok':
            rep.inconclusive('task %s n=%s %s: %s' % (t[0], t[1], t[2][:2], recs))
            continue
        absorb_mc(rep, 'C03', recs, ('verdict', 'noexc', 'unwind', 'stable'), 'CTLS.modelcheck(K, f) == CTL* semantics on every total K with n states')
        done += sum(1 for r in recs if r.get('verdict') == 'unsat')
        fallback += sum(1 for r in recs if any('LTL.model_checking.modelcheck' in x for x in r.get('encoded', ())))
    rep.cov['twins']['runs_that_encoded_the_LTL_fallback'] = fallback
    if not fallback:
        rep.inconclusive('no run took the LTL fallback (vacuity twin)')
    rep.cov['programs'] = len(fs)
    rep.cov['states'] = done
    rep.cov['transitions'] = done
    rep.cov['states_meaning'] = '(formula, n) pairs decided unsat; each covers every total structure with n states over {p,q}'


# ------------------------------------------------------------------ C15
FAIR_SAFE_UN = ['not %s', 'A X %s', 'E X %s', 'E F %s', 'A G %s']
FAIR_SAFE_BI = ['(%s and %s)', '(%s or %s)', '(%s --> %s)', 'E(%s U %s)', 'A(%s R %s)']
FAIR_EG_FORMS = ['E G p', 'A F p', 'A(p U q)', 'E(p R q)', 'A G E G p', 'E F A F q', 'not E G (p or q)', 'E(p U E G q)']


def fair_safe_set():
    at = formulas.ATOMS2
    l1 = [u % a for u in FAIR_SAFE_UN for a in at] + [b % (x, y) for b in FAIR_SAFE_BI for x in at for y in at]
    l2 = [u % formulas.par(s) for u in FAIR_SAFE_UN for s in l1[::2]]
    l2 += [b % (formulas.par(s), a) for b in FAIR_SAFE_BI for s in l1[::3] for a in at[:1]]
    l2 += [b % (a, formulas.par(s)) for b in FAIR_SAFE_BI for s in l1[1::3] for a in at[1:]]
    return at + l1 + l2


def run_c15(rep, tier):
    from . import findings
    rep.assumptions += ['total structures with n<=3 states (get_fair_states itself: n<=4 with |F|<=1); |F|<=2 fairness sets (all subsets, symbolic); Boolean constants excluded from formulas (the property does not fix their fair meaning)',
                        'open known findings D7-D10 (known_findings.json) are excluded by their class predicates and re-found natively on every run; everything outside the classes is decided',
                        '/repo at fix commit 3d1a560 or later (E R under fairness)']
    rep.cov['trusted_base'] = TRUSTED
    rep.cov['explanation'] = ('get_fair_states and CTL/CTLS.modelcheck(K,f,F) executed symbolically with symbolic fairness sets; oracle = Emerson-Lei fair-path semantics with atoms meaning '
                              '"p and a fair path starts here". Decided: get_fair_states subset-of-fair-states and closed under predecessors on every input; equality outside class D7; modelcheck == fair semantics outside '
                              'classes D7/D8; F=[] and F=[S] equal the unconstrained answer outside D7; no exception and K unchanged on every input incl. inside the classes')
    nk = findings.report_open(rep, 'C15')
    gone = set(rep.cov.get('findings_not_reproducing', []))
    d7 = findings.is_open('D7') and 'D7' not in gone
    d8 = findings.is_open('D8') and 'D8' not in gone
    d9 = findings.is_open('D9') and 'D9' not in gone
    d10 = findings.is_open('D10') and 'D10' not in gone
    # (a) get_fair_states
    ft = [(2, 0, None), (2, 1, None), (2, 2, None), (3, 0, None), (3, 1, None), (3, 2, None)]
    ft += [(3, 1, list(p)) for p in itertools.permutations(range(3)) if list(p) != [0, 1, 2]]
    # four states: F=[] in one run (16 unknowns); one fairness set forked over its 16 values
    ft += [(4, 0, None)] + [(4, 1, None, {'f0_%d' % i: v for i, v in enumerate(vals)}) for vals in itertools.product([False, True], repeat=4)]
    # histories: get_fair_states, add_edge through the structure's own API, get_fair_states again (second answer decided)
    ft += [(2, 1, None, None, (1, 0)), (2, 2, None, None, (1, 0)), (3, 1, None, None, (2, 0)), (3, 1, None, None, (0, 0)), (3, 2, None, None, (2, 0)), (3, 2, None, None, (1, 1)),
           (4, 0, None, None, (3, 0))]
    for t, st, r, secs in pmap(mc.fair_states_task, ft):
        key = 'get_fair_states n=%d |F|=%d order=%s%s' % (t[0], t[1], t[2] or 'identity', (' F0=%s' % ''.join('1' if v else '0' for v in t[3].values())) if len(t) > 3 and t[3] else '')
        if len(t) > 4 and t[4]:
            key += ' history: ask, add_edge%s, ask again' % (tuple(t[4]),)
        if st != 'ok':
            rep.inconclusive('%s: %s' % (key, r))
            continue
        rep.encoded_add(r['encoded'])
        for asp, desc in (('sound', 'result is a subset of the states with a fair path; K unchanged; no exception (every input)'),
                          ('closed', 'result is closed under predecessors: a state with a successor in the result is in the result (every input)'),
                          ('verdict', 'result == states with a fair path (inputs outside class D7)' if d7 else 'result == states with a fair path (every input)')):
            v = r[asp] if (asp != 'verdict' or d7) else r['all_inputs_exact']
            rep.obligation(key + ' ' + asp, v, r['solver_s'] / 3, r['queries'] // 3,
                           dict(obligation=desc, task=key, verdict=v, audit=r.get('audit'), gates=r['gates']))
            if v == 'sat':
                m = r.get('closed_model') if asp == 'closed' else (r.get('model') if (asp != 'verdict' or d7) else r.get('d7_model'))
                path, out = mc.fair_replay(r, m, {'sound': 'not (got <= want)', 'closed': 'any(b in got and a not in got for (a, b) in R)'}.get(asp, 'got != want'))
                if path:
                    rep.violation('%s (%s): %s' % (key, asp, out.strip().splitlines()[-2:]), path)
                else:
                    rep.inconclusive('%s: counterexample does not reproduce natively %s' % (key, out[-200:]))
        if r['twin'] != 'sat':
            rep.inconclusive('%s: twin %s' % (key, r['twin']))
    # (b) modelcheck with F
    safe = fair_safe_set()
    egs = FAIR_EG_FORMS
    tasks = []
    base = dict(ctls_oracle=True, outside_d7=d7)
    exact_forms = safe + ([] if d8 else egs)
    for logic in ('CTL', 'CTLS'):
        base = dict(ctls_oracle=True, outside_d7=d7, assume_all_fair=(logic == 'CTLS' and d10))
        for nf in (1, 2):
            tasks += [(logic, 2, ch, dict(base, fair=nf)) for ch in chunks(exact_forms if logic == 'CTL' else exact_forms[::3], 12)]
        # n=3 with both atoms (18 unknowns): the smallest size at which fair and unfair states coexist outside class D7
        tasks += [(logic, 3, ch, dict(base, fair=1, audit=False)) for ch in chunks(exact_forms[::(1 if logic == 'CTL' else 4)], 6)]
        tasks += [(logic, 2, ch, dict(base, fair=0)) for ch in chunks(exact_forms[::4], 12)]              # F=[]: every path is fair
        tasks += [(logic, 2, ch, dict(base, fair=1, fair_const=True)) for ch in chunks(exact_forms[::4], 12)]   # F=[S]
    if tier == 'thorough':
        b2 = dict(ctls_oracle=True, outside_d7=d7, audit=False)
        for vals in itertools.product([False, True], repeat=3):
            fx = {'f1_%d' % i: v for i, v in enumerate(vals)}
            tasks += [('CTL', 3, ch, dict(b2, fair=2, fixed=fx)) for ch in chunks(exact_forms[::2], 8)]
    inside = [('CTL', 2, egs, dict(base, fair=1, only_safety=True)), ('CTLS', 2, egs, dict(base, fair=1, only_safety=True)),
              ('CTL', 2, egs + safe[:20], dict(base, fair=2, outside_d7=False, only_safety=True))]
    if d9:
        inside.append(('LTL', 2, ['A G p', 'A (p U q)'], dict(base, fair=1, outside_d7=False, only_safety=True, expect_typeerror=True)))
    else:
        tasks.append(('LTL', 2, ['A G p', 'A (p U q)', 'A F G p', 'A X p'], dict(base, fair=1)))
    rep.cov['bounds'].update(n='2 (|F| in 0,1,2) and 3 (|F|=1), atoms p,q', formulas=len(exact_forms), inside_class_formulas=len(egs),
                             classes_excluded=[x for x, o in (('D7', d7), ('D8', d8), ('D9', d9), ('D10', d10)) if o])
    done = 0
    for t, st, recs, secs in pmap(mc.mc_task, tasks + inside):
        if st != 'ok':
            rep.inconclusive('task %s n=%s %s: %s' % (t[0], t[1], t[2][:2], recs))
            continue
        only_safety = t[3].get('only_safety')
        for rec in recs:
            rec['nfair'] = t[3].get('fair')
            rec['formula_key'] = rec['formula']
        if only_safety:
            for rec in recs:
                key = '%s n=%d |F|=%s %s (inside a known-finding class: no internal error, K unchanged)' % (rec['logic'], rec['n'], rec['nfair'], rec['formula'])
                if rec.get('verdict') == 'unsupported':
                    rep.inconclusive('%s: %s' % (key, rec['error']))
                    rep.obligation(key, 'unsupported')
                    continue
                rep.encoded_add(rec.get('encoded', ()))
                exc = rec.get('exc', [])
                v = 'unsat' if rec.get('pure') == 'unsat' and rec.get('unwind') == 'unsat' else 'sat'
                if t[3].get('expect_typeerror'):
                    ok = exc == ['TypeError']
                    rep.obligation(key, 'unsat' if ok and rec.get('pure') == 'unsat' else 'unknown', rec.get('solver_s', 0), rec.get('queries', 0),
                                   dict(obligation='LTL with F (known finding D9): raises TypeError only, K unchanged', formula=rec['formula'], exc=exc))
                    continue
                if rec.get('noexc') != 'unsat':
                    v = rec.get('noexc')
                rep.obligation(key, v, rec.get('solver_s', 0), rec.get('queries', 0),
                               dict(obligation='no internal error and K unchanged on every input (class members included)', formula=rec['formula'], exc=exc,
                                    verdicts=dict(noexc=rec.get('noexc'), pure=rec.get('pure'))))
                if rec.get('noexc') == 'sat':
                    path, out = mc.mcf_replay(rec, rec.get('exc_model') or {})
                    if path:
                        rep.violation('%s raises %s: %s' % (key, exc, out.strip().splitlines()[-3:]), path)
                    else:
                        rep.inconclusive('%s: exception does not reproduce natively' % key)
            continue
        for rec in recs:
            key = '%s n=%d |F|=%s%s %s' % (rec['logic'], rec['n'], rec['nfair'], ' F=[S]' if t[3].get('fair_const') else '', rec['formula'])
            if rec.get('verdict') == 'unsupported':
                rep.inconclusive('%s: %s' % (key, rec['error']))
                rep.obligation(key, 'unsupported')
                continue
            rep.encoded_add(rec.get('encoded', ()))
            aspects = {a: rec.get(a) for a in ('verdict', 'noexc', 'unwind', 'pure', 'stable')}
            worst = 'unsat'
            for a, v in aspects.items():
                if v != 'unsat':
                    worst = 'sat' if v == 'sat' else (worst if worst == 'sat' else v)
            rep.obligation(key, worst, rec.get('solver_s', 0), rec.get('queries', 0),
                           dict(obligation='modelcheck(K,f,F) == fair semantics' + (' (inputs outside class D7)' if d7 else ''), formula=rec['formula'],
                                n=rec['n'], nfair=rec['nfair'], verdicts=aspects, oracle=rec.get('oracle'), audit=rec.get('audit')))
            if worst == 'unsat':
                done += 1
            if rec.get('care_sat') != 'sat':
                rep.inconclusive('%s: assumptions unsatisfiable (vacuous)' % key)
            for a in ('verdict', 'noexc'):
                if rec.get(a) == 'sat':
                    m = rec.get('model') if a == 'verdict' else rec.get('exc_model')
                    path, out = mc.mcf_replay(rec, m or {})
                    if path:
                        rep.violation('%s (%s): %s' % (key, a, out.strip().splitlines()[-4:-1]), path)
                    else:
                        rep.inconclusive('%s: counterexample (%s) does not reproduce natively: %s' % (key, a, out[-200:]))
            for a in ('pure', 'unwind', 'stable'):
                if rec.get(a) not in (None, 'unsat'):
                    rep.inconclusive('%s: aspect %s is %s' % (key, a, rec.get(a)))
    rep.cov['programs'] = len(exact_forms) + len(egs)
    rep.cov['states'] = max(done, 1)
    rep.cov['transitions'] = max(done, 1)
    rep.cov['states_meaning'] = '(logic, formula, n, |F|) combinations decided unsat; each covers every total structure and every F of its bound (outside the listed classes)'


# ------------------------------------------------------------------ generic aspect absorption with presentation-aware replays
def ref_text(rec, opts):
    """formula in CTL* syntax over the atoms p,q for the explicit reference (atoms renamed back)"""
    t = rec['formula']
    for a, nm_ in (opts.get('label_pool') or {}).items():
        pass
    return opts.get('ref_formula') or t


def absorb_aspects(rep, pid, t, recs, aspects, describe):
    logic, n, _, opts = t
    opts = opts or {}
    if opts.get('only_shape'):
        aspects = tuple(a for a in aspects if a in ('noexc', 'isset', 'unwind', 'pure'))      # exactness under fairness belongs to C15
    for rec in recs:
        key = '%s n=%d %s%s%s%s%s' % (rec['logic'], rec['n'], rec['formula'], (' order=%s' % rec['perm']) if rec.get('perm') else '',
                                      (' states=%s' % (opts.get('states'),)) if opts.get('states') else '', (' tie-seed=%s' % opts['tie']) if opts.get('tie') is not None else '',
                                      (' atoms=%s' % (opts.get('label_pool'),)) if opts.get('label_pool') else '')
        if opts.get('edge_then_call'):
            key += ' history: call, edit label, add_edge%s, call' % (tuple(opts['edge_then_call']),)
        if rec.get('verdict') == 'unsupported':
            rep.inconclusive('%s: %s' % (key, rec['error']))
            rep.obligation(key, 'unsupported')
            continue
        rep.encoded_add(rec.get('encoded', ()))
        verdicts = {a: rec.get(a) for a in aspects if rec.get(a) is not None}
        worst = 'unsat'
        for a, v in verdicts.items():
            if v != 'unsat':
                worst = 'sat' if v == 'sat' else (worst if worst == 'sat' else v)
        rep.obligation(key, worst, rec.get('solver_s', 0), rec.get('queries', 0),
                       dict(obligation=describe, formula=rec['formula'], n=rec['n'], verdicts=verdicts, order=rec.get('perm'), states=repr(opts.get('states')),
                            encode_s=rec.get('encode_s'), solver_s=rec.get('solver_s'), gates=rec.get('gates'), audit=rec.get('audit'), oracle=rec.get('oracle')),
                       nontrivial=rec.get('nontrivial', True))
        if rec.get('skipped'):
            continue
        if rec.get('care_sat') != 'sat':
            rep.inconclusive('%s: assumptions unsatisfiable (vacuous run)' % key)
        fm = opts.get('ref_formula') or rec['formula']
        for a, v in verdicts.items():
            if v == 'unsat':
                continue
            if v != 'sat':
                rep.inconclusive('%s: aspect %s is %s' % (key, a, v))
                continue
            model = rec.get({'verdict': 'model', 'noexc': 'exc_model', 'pure': 'pure_model'}.get(a, a + '_model'))
            if a in ('verdict', 'noexc', 'isset', 'recall', 'recall_same'):
                body = ("got = run(%r, %r, K)\nwant = explicit.sat_states(explicit.Struct(n, R, L), CTLS.Parser()(%r))\n"
                        "print('modelcheck ->', got, '; reference ->', want)\nbad = [] if (isinstance(got, set) and norm(got) == want) else ['result %%r, reference %%r' %% (got, want)]\n"
                        "if isinstance(got, set):\n    first = set(got)\n    got.clear(); got.add('junk')\n    r3 = run(%r, %r, K)\n    if r3 != first: bad.append('a later call changed after the caller mutated the first result: %%r -> %%r' %% (first, r3))\n"
                        % (rec['logic'], rec['formula'], fm, rec['logic'], rec['formula']))
            elif a == 'pure':
                body = ("got = run(%r, %r, K)\nafter = str(sorted(map(repr, K.transitions()))) + str({repr(s): sorted(map(repr, K.labels(s))) for s in K.states()}) + repr(sorted(map(repr, K.S0)))\n"
                        "bad = [] if after == before else ['structure changed: %%s -> %%s' %% (before, after)]\n" % (rec['logic'], rec['formula']))
            elif a.startswith('agree_'):
                o = a[len('agree_'):]
                of = (opts.get('also_text') or {}).get(o, rec['formula'])
                body = ("a = run(%r, %r, K); b = run(%r, %r, K)\nprint(%r, a, %r, b)\nbad = [] if a == b else ['%s and %s disagree: %%r vs %%r' %% (a, b)]\n"
                        % (rec['logic'], rec['formula'], o, of, rec['logic'], o, rec['logic'], o))
            elif a == 'textobj':
                body = ("a = run(%r, %r, K); b = run(%r, mods[%r].Parser()(%r), K)\nbad = [] if a == b else ['text and object input disagree: %%r vs %%r' %% (a, b)]\n"
                        % (rec['logic'], rec['formula'], rec['logic'], rec['logic'], rec['formula']))
            elif a == 'after_edit':
                body = ("r1 = run(%r, %r, K)\nlast = states[n - 1]\nK.labels(last).add(names['p'])\nr2 = run(%r, %r, K)\n"
                        "L2 = {i: sorted(set(L[i]) | ({'p'} if i == n - 1 else set())) for i in range(n)}\n"
                        "want = explicit.sat_states(explicit.Struct(n, R, L2), CTLS.Parser()(%r))\n"
                        "print('first call ->', r1, '; after the caller added p to the last state ->', r2, '; reference for the edited structure ->', want)\n"
                        "bad = [] if (isinstance(r2, set) and norm(r2) == want) else ['stale answer after an in-place edit of the structure: %%r, expected %%r' %% (r2, want)]\n"
                        % (rec['logic'], rec['formula'], rec['logic'], rec['formula'], fm))
            elif a == 'after_edge':
                body = ("r1 = run(%r, %r, K)\nlast = states[n - 1]\nK.labels(last).add(names['p'])\nK.add_edge(states[%d], states[%d])\nr2 = run(%r, %r, K)\n"
                        "L2 = {i: sorted(set(L[i]) | ({'p'} if i == n - 1 else set())) for i in range(n)}\nR2 = sorted(set(R) | {(%d, %d)})\n"
                        "want = explicit.sat_states(explicit.Struct(n, R2, L2), CTLS.Parser()(%r))\n"
                        "print('first call ->', r1, '; after the caller added p to the last state and the transition %s ->', r2, '; reference for the edited structure ->', want)\n"
                        "bad = [] if (isinstance(r2, set) and norm(r2) == want) else ['stale answer after add_edge on the structure: %%r, expected %%r' %% (r2, want)]\n"
                        % (rec['logic'], rec['formula'], rec['edge'][0], rec['edge'][1], rec['logic'], rec['formula'], rec['edge'][0], rec['edge'][1], fm, tuple(rec['edge'])))
            elif a == 'determ':
                body = ("a = run(%r, %r, K)\nK2 = Kripke(S=list(K.states()), R=list(K.transitions()), L={s: ({'p', 'q'} - set(K.labels(s))) for s in K.states()})\n"
                        "run(%r, %r, K2)\nb = run(%r, %r, K)\nbad = [] if a == b else ['same call returned %%r, then (after a call on another structure) %%r' %% (a, b)]\n"
                        % (rec['logic'], rec['formula'], rec['logic'], rec['formula'], rec['logic'], rec['formula']))
            elif a == 'determ_args':
                k2 = "K2 = Kripke(S=list(K.states()), R=list(K.transitions()), L={s: ({'p', 'q'} - set(K.labels(s))) for s in K.states()})\n"
                tail = "bad = [] if a == b else ['same call returned %r, then (after a call of the same checker with other arguments on another structure) %r' % (a, b)]\n"
                if opts.get('fair') is None:
                    body = ("a = run(%r, %r, K)\n" % (rec['logic'], rec['formula']) + k2 + "run(%r, %r, K2, F=[set(K2.states())])\nb = run(%r, %r, K)\n" % (rec['logic'], rec['formula'], rec['logic'], rec['formula']) + tail)
                else:
                    mm = dict(model or {})
                    mm.update(rec.get('fixed') or {})
                    fs = [[i for i in range(rec['n']) if (True if opts.get('fair_const') else mm.get('f%d_%d' % (k_, i)))] for k_ in range(opts['fair'])]
                    body = ("F = [set(states[i] for i in s_) for s_ in %r]\na = run(%r, %r, K, F=F)\n" % (fs, rec['logic'], rec['formula']) + k2 +
                            "run(%r, %r, K2, F=None)\nb = run(%r, %r, K, F=F)\n" % (rec['logic'], rec['formula'], rec['logic'], rec['formula']) + tail)
            else:
                rep.inconclusive('%s: aspect %s sat (no replay template)' % (key, a))
                continue
            path, out = mc.gen_replay(pid, rec, model, body, opts)
            if path:
                rep.violation('%s [%s]: %s' % (key, a, out.strip().splitlines()[-3:-1]), path)
            else:
                rep.inconclusive('%s [%s]: counterexample does not reproduce natively: %s' % (key, a, out[-300:]))
        if ('pure' in aspects) and rec.get('formula_changed'):
            body = ("f = mods[%r].Parser()(%r)\nbefore_f = str(f)\nr1 = run(%r, f, K)\nafter_f = str(f)\nr2 = run(%r, f, K)\n"
                    "bad = []\nif after_f != before_f: bad.append('the formula object was modified: %%s -> %%s' %% (before_f, after_f))\n"
                    "if r1 != r2: bad.append('repeating the call with the same formula object returns %%r then %%r' %% (r1, r2))\n"
                    % (rec['logic'], rec['formula'], rec['logic'], rec['logic']))
            path, out = mc.gen_replay(pid, rec, None, body, opts)
            if path:
                rep.violation('%s [formula object modified]: %s' % (key, out.strip().splitlines()[-3:-1]), path)
            else:
                rep.inconclusive('%s: the evaluator saw the formula object change but the native replay does not: %s' % (key, out[-200:]))
        if ('pure' not in aspects) and rec.get('formula_changed') and not opts.get('fair'):
            # exactness checks: a formula object that the call rewrites in place gives a wrong answer when it is passed again
            body = ("f = mods[%r].Parser()(%r)\nr1 = run(%r, f, K)\nr2 = run(%r, f, K)\nwant = explicit.sat_states(explicit.Struct(n, R, L), CTLS.Parser()(%r))\n"
                    "print('first call ->', r1, '; second call with the same formula object ->', r2, '; reference ->', want, '; formula now:', f)\n"
                    "bad = [] if (isinstance(r2, set) and norm(r2) == want and isinstance(r1, set) and norm(r1) == want) else ['the same formula object passed twice: %%r then %%r, reference %%r' %% (r1, r2, want)]\n"
                    % (rec['logic'], rec['formula'], rec['logic'], rec['logic'], fm))
            for mdl in [rec.get('model'), None]:
                path, out = mc.gen_replay(pid, rec, mdl, body, opts)
                if path:
                    rep.violation('%s [formula object modified by the call]: %s' % (key, out.strip().splitlines()[-3:-1]), path)
                    break
        if ('pure' in aspects) and rec.get('shared'):
            rep.inconclusive('%s: result object shared with K' % key)
        au = rec.get('audit')
        if au:
            rep.cov['audit_rewrites_total'] = rep.cov.get('audit_rewrites_total', 0) + au['total']
            rep.cov['audit_rewrites_reproved'] = rep.cov.get('audit_rewrites_reproved', 0) + au['checked']
            if au.get('unproved'):
                rep.cov['audit_rewrites_unproved_within_budget'] = rep.cov.get('audit_rewrites_unproved_within_budget', 0) + au['unproved']
            if au['failed']:
                rep.inconclusive('%s: simplifier lemma batch not re-proved' % key)


def run_tasks(rep, pid, tasks, aspects, describe, mem_heavy=False):
    done = 0
    for t, st, recs, secs in pmap(mc.mc_task, tasks, mem_heavy=mem_heavy):
        if st != 'ok':
            rep.inconclusive('task %s n=%s %s: %s' % (t[0], t[1], t[2][:2], recs))
            continue
        absorb_aspects(rep, pid, t, recs, aspects, describe)
        done += sum(1 for r in recs if all(r.get(a) in (None, 'unsat') for a in aspects) and r.get('verdict') != 'unsupported')
    return done


# ------------------------------------------------------------------ C04
def run_c04(rep, tier):
    rep.assumptions += ['total structures n<=3 (CTL, CTLS laws) / n<=2 (anything involving the LTL tableau); formula pairs from the stated sets', 'no reference semantics is used: implementation vs implementation']
    rep.cov['trusted_base'] = TRUSTED
    rep.cov['explanation'] = ('two or three implementation runs share one symbolic structure and the solver proves their result vectors equal: CTL vs CTLS on CTL formulas, both vs LTL on '
                              'the common fragment, text vs object input, and the semantic laws (complement, and/or/implies, A g = not E not g, fixpoint expansions) as identities between vectors')
    shared3 = ['A X p', 'A G p', 'A F p', 'A(p U q)', 'A(p R q)', 'A G (p or q)', 'A F (p and q)', 'A X (not p)', 'A((not p) U q)', 'A G (p --> q)']
    ltl3 = ['A X p', 'A G p', 'A F p', 'A (p U q)', 'A (p R q)', 'A G (p or q)', 'A F (p and q)', 'A X (not p)', 'A ((not p) U q)', 'A G (p --> q)']
    nary = ['A G (p or q or (not p))', 'A X (p and q and (not q))', 'A F (p and q and p)', 'A G (q or (not q) or p)', 'A ((p or q or (not p)) U (p and q and p))',
            'A G (p --> (q or p or (not q)))', 'A X (p or (not p) or q or (not q))']
    shared3 = shared3 + nary
    ltl3 = ltl3 + nary
    tasks = []
    for c, l in zip(shared3, ltl3):
        tasks.append(('LTL', 2, [l], dict(also=['CTL', 'CTLS'], also_text={'CTL': c, 'CTLS': c}, as_text=True)))
    nary3 = ['A G (p or q or r)', 'A X (p and q and r)', 'A F (p and q and r)', 'A ((p or q or r) U (p and q and r))', 'A G (r or q or p)', 'A ((p and q and r) R (p or q or r))']
    for x in nary3:
        tasks.append(('LTL', 2, [x], dict(also=['CTL', 'CTLS'], as_text=True, aps=('p', 'q', 'r'))))
    ctlf = formulas.ctl_phi1()[4::2] + formulas.ctl_pairs()[::5]
    if tier == 'thorough':
        ctlf = formulas.ctl_phi1()[4:] + formulas.ctl_pairs()[::2] + formulas.ctl_phi2_quick()[::5]
    tasks += [('CTL', 3, ch, dict(also=['CTLS'], as_text=True)) for ch in chunks(ctlf, 6)]
    done = run_tasks(rep, 'C04', tasks, ('agree_CTL', 'agree_CTLS', 'textobj', 'noexc', 'unwind'), 'the checkers return the same set on shared formulas; text and object input agree')
    fs = ['p', 'q', 'not p', 'E X p', 'A F q', 'E G p', 'A(p U q)', 'E(q R p)', '(p and q)', 'A G (p or q)']
    gs = ['q', 'p', 'E F p', 'A X q', 'not q', 'E(p U q)']
    pairs = [(f, g) for f in fs for g in gs if f != g]
    if tier == 'quick':
        pairs = pairs[::3]
    ltl_pairs = [('p', 'q'), ('X p', 'q'), ('p', 'X q'), ('(p U q)', 'p'), ('G p', 'q'), ('p', 'F q')]
    if tier == 'thorough':
        ltl_pairs += [('F p', 'G q'), ('G p', 'F q')]          # e=4 after expansion: ~5 min each
    ltasks = [('CTL', 3, ch) for ch in chunks(pairs, 2)] + [('CTLS', 2, ch) for ch in chunks(pairs[::3], 2)] + [('LTL', 2, [pr]) for pr in ltl_pairs]
    nlaws = 0
    for t, st, recs, secs in pmap(mc.law_task, ltasks):
        if st != 'ok':
            rep.inconclusive('law task %s: %s' % (t[:2], recs))
            continue
        for rec in recs:
            key0 = '%s n=%d laws f=%s g=%s' % (rec['logic'], rec['n'], rec['pair'][0], rec['pair'][1])
            if rec.get('error'):
                rep.inconclusive('%s: %s' % (key0, rec['error']))
                rep.obligation(key0, 'unsupported')
                continue
            rep.encoded_add(rec['encoded'])
            if rec['noexc'] != 'unsat':
                rep.inconclusive('%s: exception/unwinding guard %s (%s)' % (key0, rec['noexc'], rec['exc']))
            for law, v in rec['laws'].items():
                key = '%s: %s' % (key0, law)
                rep.obligation(key, v, rec['solver_s'] / max(1, len(rec['laws'])), 1,
                               dict(obligation='semantic law as identity between implementation result vectors', law=law, f=rec['pair'][0], g=rec['pair'][1], logic=rec['logic'], n=rec['n'], verdict=v))
                if v == 'unsat':
                    nlaws += 1
                elif v == 'sat':
                    path, out = mc.law_replay(rec, law)
                    if path:
                        rep.violation('%s: %s' % (key, out.strip().splitlines()[-3:-1]), path)
                    else:
                        rep.inconclusive('%s: counterexample does not reproduce natively' % key)
                else:
                    rep.inconclusive('%s: %s' % (key, v))
    rep.cov['bounds'].update(n='3 for CTL/CTLS, 2 where the LTL tableau runs', agreement_formulas=len(ctlf) + len(ltl3), law_pairs=len(pairs) + len(ltl_pairs))
    rep.cov['programs'] = len(ctlf) + len(ltl3) + len(pairs) + len(ltl_pairs)
    rep.cov['states'] = done + nlaws
    rep.cov['transitions'] = done + nlaws
    rep.cov['states_meaning'] = 'agreement obligations and law instances decided unsat; each covers every total structure of its bound'


# ------------------------------------------------------------------ C06
def run_c06(rep, tier):
    rep.assumptions += ['iteration order of sets of states is one global order of the universe (all n! orders forked at n=3); iteration order of sets of formulas is a seeded global order of printed forms (models the hash seed; a sample of seeds)',
                        'PYTHONHASHSEED as a process setting is exercised only when counterexamples are replayed; the solver decides the order model, not fresh interpreters']
    rep.cov['trusted_base'] = TRUSTED
    rep.cov['explanation'] = ('the exactness obligations of C01-C03 re-decided with the presentation varied: every order of presenting/iterating the states (S, R, L built in that order, '
                              'set iteration follows it), states renamed to strings/tuples/mixed types, atoms renamed, tie orders of the closure sort forked by seed, and an unreachable extra state added; '
                              'the oracle does not depend on any of these, so unsat for all of them is invariance')
    perms3 = [list(p) for p in itertools.permutations(range(3))]
    ctlf = formulas.CTL_SINGLE[3:] + formulas.ctl_pairs()[::9]
    ltlf = ['A G p', 'A (p U q)', 'A F G p', 'A (X p or F q)', 'A ((p U q) R p)', 'A (G F p --> F q)'] if tier == 'quick' else ['A %s' % formulas.par(g) for g in formulas.ltl_paths(2)[2][::6]]
    ctlsf = ['E F X q', 'A (F G q --> E G p)', 'E (p U (A X q and X p))', 'E G F p', 'A (X p or X not p)', 'E X A X p']
    un2 = ['X', 'F', 'G', 'not']
    ctls_chains = ['%s %s %s %s' % (qf, u1, u2, a) for qf in 'AE' for u1 in un2 for u2 in un2 for a in ('p',)] + ['A (X not q and p)', 'E (X not p or q)', 'A X X p', 'E X not X q']
    tasks = []
    for pm in perms3[1:]:
        tasks += [('CTL', 3, ch, dict(perm=pm, audit=False)) for ch in chunks(ctlf, 10)]
    for pm in [[1, 0]]:
        tasks += [('LTL', 2, ch, dict(perm=pm, audit=False)) for ch in chunks(ltlf, 3)]
        tasks += [('CTLS', 2, ch, dict(perm=pm, audit=False)) for ch in chunks(ctlsf, 2)]
    # renamed states (strings, tuples, mixed) with a non-identity order
    for sts in (['b', 'a', 'c'], [(1, 0), (0, 1), (0, 0)], [0, '0', (0,)]):
        tasks += [('CTL', 3, ch, dict(states=sts, perm=[2, 0, 1], audit=False)) for ch in chunks(ctlf[:16], 8)]
        tasks += [('CTLS', 2, ctlsf[:3], dict(states=sts[:2], perm=[1, 0], audit=False))]
        tasks += [('LTL', 2, ltlf[:3], dict(states=sts[:2], audit=False))]
    # renamed atoms (printed forms drive sorted()/ties and the fresh names)
    for pool, (a, b) in (({'p': 'b', 'q': 'a'}, ('b', 'a')), ({'p': 'q1', 'q': 'p_'}, ('q1', 'p_'))):
        ren = lambda s: ''.join({'p': a, 'q': b}.get(tok, tok) for tok in __import__('re').split(r'(\W+)', s))
        tasks += [('LTL', 2, [ren(x)], dict(label_pool=pool, ref_formula=x, audit=False, rename=(a, b))) for x in ltlf[:4]]
        tasks += [('CTLS', 2, [ren(x)], dict(label_pool=pool, ref_formula=x, audit=False, rename=(a, b))) for x in ctlsf[:3]]
        tasks += [('CTL', 3, [ren(x)], dict(label_pool=pool, ref_formula=x, audit=False, rename=(a, b))) for x in ctlf[:6]]
    # tie orders inside the closure (hash-seed dependent order of formula sets)
    seeds = range(1, 5) if tier == 'quick' else range(1, 25)
    for sd in seeds:
        tasks += [('LTL', 2, ch, dict(tie=sd, audit=False)) for ch in chunks(ltlf, 3)]
        tasks += [('CTLS', 2, ctlsf[:3], dict(tie=sd, audit=False))]
        tasks += [('CTLS', 1, ch, dict(tie=sd, audit=False)) for ch in chunks(ctls_chains, 9)]
        tasks += [('CTLS', 2, ch, dict(tie=sd, audit=False)) for ch in chunks(ctls_chains[::3], 3)]
    # an extra state unreachable from the queried ones
    unre = dict(sub_n=2, fixed={'t_0_2': False, 't_1_2': False}, audit=False)
    tasks += [('CTL', 3, ch, dict(unre)) for ch in chunks(ctlf[:20], 10)]
    tasks += [('CTLS', 3, [x], dict(unre)) for x in ctlsf[:2]] + [('LTL', 3, [x], dict(unre)) for x in ltlf[:2]]
    # four states under 6 (quick) / all 23 (thorough) non-identity orders: formulas over p only, the 16 p-labellings forked, q never holds
    p4 = [list(p) for p in itertools.permutations(range(4))][1:]
    p4 = p4 if tier == 'thorough' else [[3, 2, 1, 0], [1, 2, 3, 0], [3, 0, 1, 2], [1, 0, 3, 2], [0, 2, 1, 3], [2, 3, 0, 1]]
    for pm in p4:
        for vals in itertools.product([False, True], repeat=4):
            fx = dict({'l_q_%d' % i: False for i in range(4)}, **{'l_p_%d' % i: v for i, v in enumerate(vals)})
            tasks.append(('CTL', 4, ['E G p', 'A F p', 'E G not p'], dict(perm=pm, fixed=fx, audit=False)))
    if tier == 'thorough':
        for pm in [list(p) for p in itertools.permutations(range(4))][1::3]:
            for fx in list(label_forks(4))[::37]:
                tasks.append(('CTL', 4, formulas.CTL_SINGLE[7:], dict(perm=pm, fixed=fx, audit=False)))
    done = run_tasks(rep, 'C06', tasks, ('verdict', 'noexc', 'unwind', 'stable'), 'modelcheck == reference semantics under this presentation (order / naming / tie order / unreachable extra state)',
                     mem_heavy=True)
    rep.cov['bounds'].update(orders='all 6 at n=3 for CTL; swap at n=2 for LTL/CTL*; n=4: %d orders x 16 p-labellings for E G p, A F p, E G not p' % len(p4) + ('; 8 of 24 at n=4 for further formulas' if tier == 'thorough' else ''), tie_seeds=len(list(seeds)),
                             state_types='ints, strings, tuples, mixed int/str/tuple', atom_renamings=2)
    rep.cov['programs'] = len(ctlf) + len(ltlf) + len(ctlsf)
    rep.cov['states'] = done
    rep.cov['transitions'] = done
    rep.cov['states_meaning'] = '(logic, formula, presentation) combinations decided unsat'


# ------------------------------------------------------------------ C07
def run_c07(rep, tier):
    rep.assumptions += ['heap model of the evaluator: the caller\'s structure is snapshotted bit by bit before the call and compared afterwards (every label set incl. atoms that did not exist before, every successor set, S0, object identities)',
                        'module-level names rebound through `global` and mutable module-level containers live in the VM for the whole harness (all calls of a history see them); class attributes rebound at run time are not modelled']
    rep.cov['trusted_base'] = TRUSTED
    rep.cov['explanation'] = ('on the symbolic runs of all three checkers (with and without fairness, text and object formulas): the solver proves no bit of the caller\'s structure differs from its snapshot; '
                              'no label/successor set is shared with the result; the formula prints as before; the same call repeated after an interleaved call of the same formula on another structure returns an equal vector')
    ctlf = formulas.CTL_SINGLE + formulas.ctl_pairs()[::6]
    ltlf = ['A G p', 'A (p U q)', 'A F G p', 'A (X p or F q)', 'A ((p U q) R p)']
    ctlsf = ['E F X q', 'A (F G q --> E G p)', 'E (p U (A X q and X p))', 'E G F p', 'E X A X p', '(p and A X E X q)', 'A F E G p']
    if tier == 'thorough':
        ctlf = formulas.ctl_phi1() + formulas.ctl_pairs()
        ltlf = ['A %s' % formulas.par(g) for g in formulas.ltl_level1(formulas.ATOMS2) + formulas.ltl_paths(2)[2][::12]]
        ctlsf = ctls_set('quick')[::4]
    o = dict(interleave=True, recall=True, as_text=True, edit_then_call=True)
    tasks = [('CTL', 3, ch, dict(o)) for ch in chunks(ctlf, 6)]
    tasks += [('LTL', 2, [x], dict(o)) for x in ltlf] + [('CTLS', 2, [x], dict(o)) for x in ctlsf]
    tasks += [('CTL', 2, ch, dict(o, fair=1, ctls_oracle=True, outside_d7=False)) for ch in chunks(ctlf[3:], 8)]
    tasks += [('CTLS', 2, ch, dict(o, fair=1, ctls_oracle=True, outside_d7=False)) for ch in chunks(ctlsf + ctlf[7:13], 3)]
    # F given as an EMPTY list (falsy, but not None), also with quantifier-free formulas: the structure still must not be touched
    props = ['p', 'not q', 'p or not q', 'p and q', 'p --> q', 'true', 'not (p and not q)']
    for lg in ('CTL', 'CTLS'):
        tasks += [(lg, 2, ch, dict(o, fair=0, ctls_oracle=True, outside_d7=False)) for ch in chunks(props + (ctlf[:4] if lg == 'CTL' else ctlsf[:3]), 4)]
        tasks += [(lg, 3, props[:4], dict(o, fair=0, ctls_oracle=True, outside_d7=False))]
    # history: call; the caller edits a label and adds a transition through K's own API; call  (structures without that transition)
    oe = dict(edit_then_call=True)
    tasks += [('CTL', 3, ch, dict(oe, edge_then_call=(2, 0))) for ch in chunks(ctlf[::2], 6)] + [('CTL', 3, ch, dict(oe, edge_then_call=(1, 1))) for ch in chunks(ctlf[1::4], 6)]
    tasks += [('LTL', 2, [x], dict(oe, edge_then_call=(1, 0))) for x in ltlf[::3]] + [('CTLS', 2, [x], dict(oe, edge_then_call=(1, 0))) for x in ctlsf[::3]]
    done = run_tasks(rep, 'C07', tasks, ('pure', 'determ', 'determ_args', 'recall_same', 'textobj', 'unwind', 'after_edit', 'after_edge'), 'the call leaves K and the formula unchanged; repeating it (also after a call on another structure) gives an equal set',
                     mem_heavy=True)
    rep.cov['bounds'].update(n='3 (CTL) / 2 (LTL, CTL*, fairness)', formulas=len(ctlf) + len(ltlf) + len(ctlsf), histories='call; call(other structure, same formula); call  |  call; call(other structure, with F if this call has none / without F if it has one); call  |  call; mutate result; call  |  call; caller edits K; call  |  call; caller edits a label and adds a transition (K.add_edge); call')
    rep.cov['programs'] = len(ctlf) + len(ltlf) + len(ctlsf)
    rep.cov['states'] = done
    rep.cov['transitions'] = done
    rep.cov['states_meaning'] = '(logic, formula, fairness) combinations decided unsat; each covers every total structure of its bound'


# ------------------------------------------------------------------ C19
def deep_native(rep, depth=60):
    """RecursionError clause: nesting depth 60 natively (a CPython resource, not modelled symbolically)"""
    from pyModelChecking import Kripke, CTL, LTL, CTLS
    K = Kripke(S=[0, 1], R=[(0, 1), (1, 0), (1, 1)], L={0: {'p'}, 1: {'q'}})
    bad = []
    # (the LTL tableau is exponential in the number of temporal subformulas, so its spine is Boolean)
    for logic, mod, wrap, leaf, pre in (('CTL', CTL, 'not E X (%s)', 'p', ''), ('CTLS', CTLS, 'not E X (%s)', 'p', ''), ('LTL', LTL, '(q and (p or %s))', 'p', 'A ')):
        s = leaf
        for _ in range(depth):
            s = wrap % s
        try:
            r = mod.modelcheck(K, pre + '(%s)' % s)
            if not isinstance(r, set) or not r <= {0, 1}:
                bad.append('%s depth %d: %r' % (logic, depth, r))
        except Exception as e:
            bad.append('%s depth %d raised %s' % (logic, depth, type(e).__name__))
    rep.cov['traces_validated_against_impl'] += 3
    rep.obligation('native spine depth %d' % depth, 'unsat' if not bad else 'sat', 0, 0, dict(native_only='formula spines of depth %d through all three checkers' % depth, problems=bad))
    for b in bad:
        rep.inconclusive('deep formula natively: ' + b)


def run_c19(rep, tier):
    rep.assumptions += ['states of mixed types, labels with non-string values and operator-like / fresh-name-colliding strings are concrete presentations; transitions and p/q labels stay symbolic',
                        'RecursionError: examined natively to nesting depth 60 only (CPython stack, not modelled)']
    rep.cov['trusted_base'] = TRUSTED
    rep.cov['explanation'] = ('on the symbolic runs of the three checkers over heterogeneous presentations: the result is a set, holds only states of K, is not an object reachable from K, no exception guard is satisfiable, '
                              'and a second call after the first result was emptied/polluted still equals the reference')
    junk = [7, ('t',), 'or', 'A', '[p]', 'fair', 'fair0', '[A(F(p))]', '[E(X(p))]', '[[A(F(p))](0)]']
    mixed = [0, '1', (2,)]
    ctlf = formulas.CTL_SINGLE + ['E X r', 'A G (p or r)', 'A(r U q)', 'E G not r'] + formulas.ctl_pairs()[::11]
    ltlf = ['A G p', 'A (p U q)', 'A F G p', 'A (r U p)', 'A X r']
    ctlsf = ['E F X q', 'E X (A F p)', 'A (F G q --> E G p)', 'A G (E X p)', 'E (r U (A X q and X p))', '(p and A X E X q)']
    if tier == 'thorough':
        ctlf = formulas.ctl_phi1() + ['E X r', 'A G (p or r)', 'A(r U q)', 'E G not r'] + formulas.ctl_pairs()[::2]
        ltlf = ltlf + ['A %s' % formulas.par(g) for g in formulas.ltl_paths(2)[2][::10]]
        ctlsf = ctlsf + ctls_set('quick')[::5]
    o = dict(recall=True, junk=junk)
    tasks = [('CTL', 3, ch, dict(o, states=mixed)) for ch in chunks(ctlf, 6)]
    tasks += [('CTL', 3, ch, dict(o, states=['s t', 'A', 'or'], perm=[1, 2, 0])) for ch in chunks(ctlf[::2], 6)]
    tasks += [('LTL', 2, [x], dict(o, states=mixed[1:])) for x in ltlf] + [('CTLS', 2, [x], dict(o, states=mixed[:2])) for x in ctlsf]
    tasks += [('CTLS', 2, ch, dict(o, states=[(0, 0), 'x'], fair=1, ctls_oracle=True, outside_d7=False, only_shape=True)) for ch in chunks(ctlsf[:3] + ['E X p', 'A G p'], 2)]
    done = run_tasks(rep, 'C19', tasks, ('verdict', 'noexc', 'isset', 'recall', 'unwind', 'stable'), 'modelcheck returns a fresh set of K\'s own states (== reference) and never raises, for heterogeneous states/labels',
                     mem_heavy=True)
    deep_native(rep)
    rep.cov['bounds'].update(n='3 (CTL) / 2 (LTL, CTL*)', formulas=len(ctlf) + len(ltlf) + len(ctlsf), state_presentations=[repr(mixed), "['s t','A','or']", "[(0,0),'x']"], junk_labels=repr(junk))
    rep.cov['programs'] = len(ctlf) + len(ltlf) + len(ctlsf)
    rep.cov['states'] = done
    rep.cov['transitions'] = done
    rep.cov['states_meaning'] = '(logic, formula, presentation) combinations decided unsat'


# ------------------------------------------------------------------ C05
def run_c05(rep, tier):
    from . import rewrite, findings
    rep.level = 'model_checking'
    rep.assumptions += ['models: all total Kripke structures with 3 states over {p,q} (state formulas) and all (k,l)-lassos with k<=5 positions over {p,q,r} (path formulas); subformulas are atoms, so each per-operator rule is checked as an equivalence schema',
                        'Boolean constants count as atoms of the restricted alphabet (the rewriter keeps "false"); the formula dimension is enumeration of programs',
                        'LTL: the restricted language is documented for path formulas; A-rooted LTL formulas are known finding D12']
    rep.cov['trusted_base'] = TRUSTED
    rep.cov['explanation'] = ('get_equivalent_restricted_formula and LNot run natively on each enumerated formula; input and output formula are both translated by the reference semantics into circuits over '
                              'symbolic models and z3 looks for a distinguishing model (no model-checking code involved); alphabet membership and "no leading double negation" are checked on the output tree')
    findings.report_open(rep, 'C05')
    P = formulas.par
    towers = []
    for base in ['p', '(p or q)', 'X p', '(p U q)', 'G p']:
        s = base
        for k in range(1, 6):
            s = 'not %s' % P(s)
            towers.append(s)
    l1 = formulas.ltl_level1(['p', 'q'])
    l1c = formulas.ltl_level1(formulas.ATOMS4)
    lv2 = formulas.ltl_paths(2)[2]
    paths = ['p', 'true', 'false'] + l1c + lv2[::(4 if tier == 'quick' else 1)] + towers
    # every binary/n-ary operator over every pair of depth-1 operands (one instance per operator)
    one_each = ['not p', 'X p', 'F q', 'G r', '(p and q)', '(q or r)', '(p --> r)', '(p U q)', '(q R r)']
    for b in formulas.LTL_BI:
        paths += [b % (x, y) for x in one_each for y in one_each]
    paths += ['(%s and %s and %s)' % (x, y, z) for x in one_each[::2] for y in one_each[1::3] for z in one_each[2::4]]
    paths += ['(%s or %s or %s)' % (x, y, z) for x in one_each[1::2] for y in one_each[::3] for z in one_each[3::4]]
    paths += ['((p or q) or (q or r) or p)', '((p and q) and (r and p) and (q and r))', '(((p or q) or r) or (p or (q or r)))']
    # operator over two operators with pairwise DISTINCT atoms (a rewriting that loses or swaps an operand cannot hide behind a repeated atom)
    bi3 = ['(%s and %s)', '(%s or %s)', '(%s --> %s)', '(%s U %s)', '(%s R %s)']
    for b1 in bi3:
        for b2 in bi3:
            for b3 in bi3:
                paths.append(b1 % (b2 % ('p', 'q'), b3 % ('r', 's')))
    # binary operator over a unary chain of depth 2 (either side), and unary chains of depth 3
    un4 = formulas.LTL_UN
    chains2 = [u1 % formulas.par(u2 % 'p') for u1 in un4 for u2 in un4]
    for b1 in bi3:
        paths += [b1 % (c2, 'q') for c2 in chains2] + [b1 % ('q', c2) for c2 in chains2]
    paths += [u0 % formulas.par(c2) for u0 in un4 for c2 in chains2]
    # depth 3, every shape with a binary operator below / between unary ones (distinct atoms)
    for u1 in un4:
        for b1 in bi3:
            paths += [u1 % formulas.par(u2 % formulas.par(b1 % ('p', 'q'))) for u2 in un4]
            paths += [u1 % formulas.par(b1 % (u2 % 'p', 'q')) for u2 in un4] + [u1 % formulas.par(b1 % ('p', u2 % 'q')) for u2 in un4]
            paths += [u1 % formulas.par(b1 % (b2 % ('p', 'q'), 'r')) for b2 in bi3] + [u1 % formulas.par(b1 % ('p', b2 % ('q', 'r'))) for b2 in bi3]
            paths += [b1 % (u1 % formulas.par(b2 % ('p', 'q')), 'r') for b2 in bi3] + [b1 % ('r', u1 % formulas.par(b2 % ('p', 'q'))) for b2 in bi3]
    paths += ['((p or q) or (r or s) or (X p or X r))', '((p and q) and (r and s) and (F p and G s))', '(not (p or q) or not (r or s))', '((p or q) or not (r or s))']
    paths += ['((p U q) R r)', '(F p --> G (q or X r))', '(p and q and r)', '(p or q or r)', 'not (p and not q and X r)', 'G F p', 'F G (p --> q)', '((p R q) U (q R r))']
    ctl = formulas.ctl_phi1() + formulas.ctl_pairs()[::(3 if tier == 'quick' else 1)] + formulas.ctl_phi2_quick()[::(9 if tier == 'quick' else 2)]
    ctl_one = ['not p', 'A X p', 'E F q', 'A G q', '(p and q)', '(q or p)', '(p --> q)', 'A(p U q)', 'E(q R p)', 'E G p', 'A F q']
    for b in formulas.CTL_BI:
        ctl += [b % (formulas.par(x), formulas.par(y)) for x in ctl_one for y in ctl_one[::(2 if tier == 'quick' else 1)]]
    ctl += ['(%s or %s or %s)' % (formulas.par(x), formulas.par(y), formulas.par(z)) for x in ctl_one[::3] for y in ctl_one[1::3] for z in ctl_one[2::3]]
    ctl += ['((p or q) or (q or p) or p)', '((p and q) and (q and p))', '(((p or q) or p) or (p or (q or p)))']
    cb = ['(%s and %s)', '(%s or %s)', '(%s --> %s)']
    for b1 in cb:
        for b2 in cb:
            for b3 in cb:
                ctl.append(b1 % (b2 % ('p', 'E X q'), b3 % ('A F q', 'E G p')))
                ctl.append(b1 % (b2 % ('A X p', 'q'), b3 % ('E (p U q)', 'A (q R p)')))
    cu = ['not %s', 'A X %s', 'E X %s', 'A F %s', 'E F %s', 'A G %s', 'E G %s']
    cbin = ['(%s and %s)', '(%s or %s)', '(%s --> %s)', 'A(%s U %s)', 'E(%s U %s)', 'A(%s R %s)', 'E(%s R %s)']
    d3 = [u1 % formulas.par(u2 % formulas.par(b % ('p', 'q'))) for u1 in cu for u2 in cu for b in cbin]
    d3 += [u1 % formulas.par(b % (formulas.par(u2 % 'p'), 'q')) for u1 in cu for u2 in cu for b in cbin[3:]] + [u1 % formulas.par(b % ('p', formulas.par(u2 % 'q'))) for u1 in cu for u2 in cu for b in cbin[3:]]
    ctl += d3[::(2 if tier == 'quick' else 1)]
    ctl += ['not not E X p', 'not not not A G p', '(p and q and A X p)', '(p or q or E G p)', 'not (p and not q)']
    ctls_state = ctls_set(tier)[::(2 if tier == 'quick' else 1)] + ['not not A F p', 'not not not E (p U q)']
    tasks = [('CTL', ch) for ch in chunks(ctl, 12)] + [('CTLS', ch) for ch in chunks(ctls_state, 6)] + [('CTLS', ch, 3, 5, ('p', 'q', 'r', 's')) for ch in chunks(paths, 10)] + [('LTL', ch, 3, 5, ('p', 'q', 'r', 's')) for ch in chunks(paths, 10)]
    rep.cov['bounds'].update(n=3, lasso_positions=5, formulas=dict(CTL=len(ctl), CTLS_state=len(ctls_state), CTLS_path=len(paths), LTL_path=len(paths)))
    done = 0
    for t, st, recs, secs in pmap(rewrite.rewrite_task, tasks):
        if st != 'ok':
            rep.inconclusive('task %s: %s' % (t[0], recs))
            continue
        for rec in recs:
            key = '%s %s' % (rec['logic'], rec['formula'])
            if rec.get('error'):
                rep.inconclusive('%s: %s' % (key, rec['error']))
                rep.obligation(key, 'error')
                continue
            v = 'unsat'
            for c, r in rec['checks'].items():
                if c != 'skipped' and r != 'unsat':
                    v = 'sat' if r == 'sat' else (v if v == 'sat' else r)
            rep.obligation(key, v if not rec['problems'] else 'sat', rec['solver_s'], rec['queries'],
                           dict(obligation='f, rewritten f and not f / LNot(f) have the same models', logic=rec['logic'], formula=rec['formula'], restricted=rec.get('restricted'),
                                checks=rec['checks'], syntactic_problems=rec['problems']))
            if v == 'unsat' and not rec['problems']:
                done += 1
            for pr in rec['problems']:
                path = write_replay_syntax(rec, pr)
                rep.violation('%s: %s' % (key, pr), path)
            for which in ('restricted', 'LNot'):
                for kind, ck in (('structure', which + ' over structures'), ('lasso', which + ' over lassos')):
                    if rec['checks'].get(ck) == 'sat':
                        path, out = rewrite.c05_replay(rec, which, kind)
                        if path:
                            rep.violation('%s: %s not equivalent (%s): %s' % (key, which, kind, out.strip().splitlines()[-3:-1]), path)
                        else:
                            rep.inconclusive('%s: %s counterexample does not reproduce with the explicit evaluators: %s' % (key, which, out[-200:]))
                    elif rec['checks'].get(ck) not in (None, 'unsat'):
                        rep.inconclusive('%s: %s is %s' % (key, ck, rec['checks'].get(ck)))
    rep.cov['programs'] = len(ctl) + len(ctls_state) + 2 * len(paths)
    rep.cov['states'] = max(done, 1)
    rep.cov['transitions'] = max(done, 1)
    rep.cov['states_meaning'] = 'formulas whose rewriting and LNot were proved equivalent on every model of the bound'
    rep.cov['functions_natively_run'] = ['get_equivalent_restricted_formula (all classes)', 'pyModelChecking.language.LNot']


def write_replay_syntax(rec, problem):
    from .common import write_replay
    body = ('import importlib\nfrom pyModelChecking.language import LNot\nmod = importlib.import_module(%r)\nf = mod.Parser()(%r)\n'
            'print("restricted:", f.get_equivalent_restricted_formula(), " LNot:", LNot(f))\nprint("VIOLATION of C05: %s")\nsys.exit(1)\n'
            % ('pyModelChecking.' + rec['logic'], rec['formula'], problem.replace('"', "'")))
    return write_replay('C05', body)
