"""Drivers for the model-checking properties."""
import itertools, random, time
from .common import pmap, rng, SEED, chunks
from . import mc, formulas
from .p_graph import TRUSTED


def validate_mc(rep, logic, count, ns=(1, 2, 3, 4)):
    """translator validation: evaluator with every unknown constant vs the natively running checker"""
    from . import see, explicit
    from .harness import sym_kripke
    import importlib
    mcmod = importlib.import_module('pyModelChecking.%s.model_checking' % logic)
    from pyModelChecking import Kripke
    r = rng('val-' + logic)
    pool = {'CTL': formulas.ctl_phi1() + formulas.ctl_pairs()[::7],
            'LTL': ['A %s' % formulas.par(x) for x in formulas.ltl_level1(formulas.ATOMS2)],
            'CTLS': formulas.ctl_phi1()[::3] + ['A %s' % formulas.par(x) for x in formulas.ltl_level1(formulas.ATOMS2)][::2]}[logic]
    ok = 0
    for k in range(count):
        n = r.choice(ns)
        S = explicit.rand_struct(r, n)
        ftxt = r.choice(pool)
        fixed = {'t_%d_%d' % (i, j): ((i, j) in S.R) for i in range(n) for j in range(n)}
        fixed.update({'l_%s_%d' % (a, i): (a in S.L[i]) for a in 'pq' for i in range(n)})
        see.reset()
        try:
            f = mc.parse(logic, ftxt)
            h = sym_kripke(n, mods=mc.LOGIC_MODS[logic], fold=False, care_total=False, fixed=fixed, bounds=mc.bounds_for(n, logic))
            res = h.ctx.call(mcmod.modelcheck, [h.K, f], {})
            mine = {i for i, g in enumerate(mc.vec(res, range(n))) if g is True}
            sym_exc = [type(e).__name__ for g, e, _ in h.fr.exc if g is not False]
        except see.Unsupported as e:
            rep.inconclusive('translator validation: %s on %s: Unsupported %s' % (logic, ftxt, e))
            continue
        try:
            real = mcmod.modelcheck(Kripke(S=range(n), R=sorted(S.R), L={i: set(S.L[i]) for i in range(n)}), ftxt)
            real_exc = []
        except Exception as e:
            real, real_exc = None, [type(e).__name__]
        if (real_exc and sym_exc and real_exc[-1] == sym_exc[-1]) or (not real_exc and not sym_exc and mine == real):
            ok += 1
        else:
            rep.inconclusive('translator validation failed: %s %s on R=%s L=%s: evaluator %s/%s native %s/%s' % (
                logic, ftxt, sorted(S.R), S.L, mine, sym_exc, real, real_exc))
    rep.cov['traces_validated_against_impl'] += ok
    return ok


def absorb_mc(rep, pid, recs, aspects, describe, need_nontrivial=False):
    """fold per-formula records into the report. aspects: which sub-verdicts this property claims."""
    for rec in recs:
        key = '%s n=%d %s%s%s%s' % (rec['logic'], rec['n'], rec['formula'], '' if rec.get('fold', True) else ' raw',
                                    (' order=%s' % rec['perm']) if rec.get('perm') else '',
                                    (' fork=%s' % ''.join('1' if v else '0' for v in rec['fixed'].values())) if rec.get('fixed') else '')
        if rec.get('verdict') == 'unsupported':
            rep.inconclusive('%s: %s' % (key, rec['error']))
            rep.obligation(key, 'unsupported')
            continue
        rep.encoded_add(rec.get('encoded', ()))
        verdicts = {a: rec.get(a) for a in aspects if rec.get(a) is not None}
        worst = 'unsat'
        for a, v in verdicts.items():
            if v != 'unsat':
                worst = v if worst == 'unsat' or v == 'sat' else worst
        sample = dict(obligation=describe, formula=rec['formula'], n=rec['n'], verdicts=verdicts, encode_s=rec.get('encode_s'),
                      solver_s=rec.get('solver_s'), gates=rec.get('gates'), distinct_functions=rec.get('functions'),
                      loops=rec.get('loops'), audit=rec.get('audit'), order=rec.get('perm'), forked=len(rec.get('fixed') or {}),
                      oracle=rec.get('oracle'))
        rep.obligation(key, worst, rec.get('solver_s', 0), rec.get('queries', 0), sample, nontrivial=rec.get('nontrivial', True))
        if rec.get('skipped'):
            continue
        if rec.get('care_sat') != 'sat':
            rep.inconclusive('%s: the totality assumption is %s (vacuous run)' % (key, rec.get('care_sat')))
        if 'verdict' in aspects and rec.get('verdict') == 'sat':
            path, out = mc.mc_replay(pid, rec)
            if path:
                rep.violation('%s: result differs from the reference semantics; reproduces natively: %s' % (key, out.strip().splitlines()[-4:-1]), path)
            else:
                rep.inconclusive('%s: counterexample does not reproduce natively: %s' % (key, out[-300:]))
        if 'noexc' in aspects and rec.get('noexc') == 'sat':
            path, out = mc.mc_replay(pid, rec, rec.get('exc_model'))
            if path:
                rep.violation('%s: raises %s; reproduces natively: %s' % (key, rec.get('exc'), out.strip().splitlines()[-4:-1]), path)
            else:
                rep.inconclusive('%s: exception %s does not reproduce natively: %s' % (key, rec.get('exc'), out[-300:]))
        for a in ('pure', 'isset', 'recall', 'unwind', 'stable'):
            if a in aspects and rec.get(a) not in (None, 'unsat'):
                rep.inconclusive('%s: aspect %s is %s' % (key, a, rec.get(a)))
        if 'pure' in aspects and (rec.get('shared') or rec.get('formula_changed')):
            rep.inconclusive('%s: shared=%s formula_changed=%s' % (key, rec.get('shared'), rec.get('formula_changed')))
        a = rec.get('audit')
        if a:
            rep.cov['audit_rewrites_total'] = rep.cov.get('audit_rewrites_total', 0) + a['total']
            rep.cov['audit_rewrites_reproved'] = rep.cov.get('audit_rewrites_reproved', 0) + a['checked']
            if a['failed']:
                rep.inconclusive('%s: simplifier lemma batch not re-proved' % key)
        c = rec.get('cross')
        if c:
            rep.cov.setdefault('cross_solver', {})
            for k, v in c.items():
                rep.cov['cross_solver'].setdefault(k, {}).setdefault(v if v in ('agree', 'absent') else 'other', 0)
                rep.cov['cross_solver'][k][v if v in ('agree', 'absent') else 'other'] += 1
                if v not in ('agree', 'absent'):
                    rep.inconclusive('%s: %s %s' % (key, k, v))


def label_forks(n, aps=('p', 'q')):
    names = ['l_%s_%d' % (a, i) for a in aps for i in range(n)]
    for vals in itertools.product([False, True], repeat=len(names)):
        yield dict(zip(names, vals))


def run_c01(rep, tier):
    rep.assumptions += ['total Kripke structures with n states 0..n-1 over atoms {p,q}; formulas from the stated sets (enumeration of programs)',
                        'states/labels outside the bound, other state types: see C06/C19']
    rep.cov['trusted_base'] = TRUSTED
    rep.cov['explanation'] = ('CTL.modelcheck and everything below it (rewriting natively, _check*, Kripke/DiGraph methods, compute_SCCs) '
                              'executed symbolically on a structure whose n*n transition bits and 2n label bits are unknowns; per formula one '
                              'merged run covers every total structure of the bound; z3 proves result vector == CTL fixpoint oracle circuit, '
                              'no exception, loops fully unrolled')
    validate_mc(rep, 'CTL', 60 if tier == 'quick' else 200)
    tasks = []
    q1 = formulas.ctl_phi1()
    q2 = formulas.ctl_phi2_quick() if tier == 'quick' else formulas.ctl_phi2_full()
    raw = ['p', 'true', 'not p', '(p or q)', '(p --> q)', 'E X p', 'A X p', 'E(p U q)', 'E F p', 'A G p', 'E G p', 'A F p', 'A(p R q)']
    if tier == 'thorough':
        raw += ['A(p U q)', 'E(p R q)']
    tasks += [('CTL', 2, [x], dict(fold=False, audit=False, timeout_ms=900000)) for x in raw]      # raw circuits, no simplifier
    tasks += [('CTL', 1, ch, {}) for ch in chunks(q1, 48)]
    tasks += [('CTL', 2, ch, {}) for ch in chunks(q1, 24)]
    tasks += [('CTL', 3, ch, {}) for ch in chunks(q1 + formulas.ctl_pairs() + q2, 12)]
    nforms = len(q1) + len(formulas.ctl_pairs()) + len(q2)
    if tier == 'thorough':
        tasks += [('CTL', 3, ch, {}) for ch in chunks(formulas.ctl_depth3_one_atom(), 12)]
        nforms += len(formulas.ctl_depth3_one_atom())
        n4 = formulas.CTL_SINGLE + formulas.ctl_pairs()[::5]
        r = rng('c01-n4')
        for fx in label_forks(4):
            tasks.append(('CTL', 4, n4 if False else r.sample(n4, 6), dict(fixed=fx, audit=False)))
    else:
        r = rng('c01-n4q')
        forks = list(label_forks(4))
        for fx in r.sample(forks, 16):
            tasks.append(('CTL', 4, r.sample(formulas.CTL_SINGLE[7:], 3), dict(fixed=fx, audit=False)))
    rep.cov['bounds'].update(n='1..3 fully merged (15 unknowns at n=3); n=4 with the 8 label bits forked (%s)' % ('all 256 forks x 6 sampled formulas' if tier == 'thorough' else '16 seeded forks x 3 formulas'),
                             formulas=nforms, formula_sets='Phi_1 over {p,q,true,false}; operator pairs; depth-2 with one deep child' + ('; depth 3 over one atom' if tier == 'thorough' else ''),
                             loop_bounds='get_reachable_set_from n+1, compute_SCCs n*n+n+1; remaining-iteration guards are obligations', no_fold='n=2, %d single-operator formulas' % len(raw))
    structures = 0
    for t, st, recs, secs in pmap(mc.mc_task, tasks):
        if st != 'ok':
            rep.inconclusive('task %s %s: %s' % (t[0], t[2][:2], recs))
            continue
        absorb_mc(rep, 'C01', recs, ('verdict', 'noexc', 'unwind'), 'CTL.modelcheck(K, f) == CTL semantics on every total K with n states')
        for rec in recs:
            if rec.get('verdict') == 'unsat' and not rec.get('skipped'):
                structures += 1
    rep.cov['programs'] = nforms
    rep.cov['states'] = structures
    rep.cov['transitions'] = structures
    rep.cov['states_meaning'] = '(formula, bound) pairs decided unsat; each covers every total structure of its bound (7^3*2^6 = 21,952 at n=3)'
