"""Symbolic inputs for the real code: graphs and Kripke structures whose edges/labels are unknowns."""
import itertools
from . import see
from .see import (VM, Ctx, Frame, GSeq, MSet, MDict, MList, SChoice, var, b_and, b_or, b_not, b_xor, b_iff, b_ite,
                  fold_b, fold, is_c, alts_of, enable_tt, restrict_care, TT)
from .common import REPO  # noqa: F401  (puts /repo on sys.path)

GRAPH_MODS = {'pyModelChecking.graph'}
KRIPKE_MODS = GRAPH_MODS | {'pyModelChecking.kripke'}
CTL_MODS = KRIPKE_MODS | {'pyModelChecking.CTL.model_checking'}
LTL_MODS = KRIPKE_MODS | {'pyModelChecking.LTL.model_checking'}
ALL_MC_MODS = CTL_MODS | LTL_MODS | {'pyModelChecking.CTLS.model_checking'}
BDD_MODS = {'pyModelChecking.BDD.BDD', 'pyModelChecking.BDD.ordering'}


def harness_ctx(vm):
    fr = Frame('<harness>')
    return Ctx(vm, fr, True), fr


def tnames(n, p='t'):
    return ['%s_%d_%d' % (p, i, j) for i in range(n) for j in range(n)]


def lnames(n, aps):
    return ['l_%s_%d' % (a, i) for a in aps for i in range(n)]


def matrix(n, p='t', fixed=None):
    fixed = fixed or {}
    return [[fixed['%s_%d_%d' % (p, i, j)] if '%s_%d_%d' % (p, i, j) in fixed else var('%s_%d_%d' % (p, i, j))
             for j in range(n)] for i in range(n)]


def labels(n, aps, fixed=None):
    fixed = fixed or {}
    return {a: [fixed['l_%s_%d' % (a, i)] if 'l_%s_%d' % (a, i) in fixed else var('l_%s_%d' % (a, i)) for i in range(n)]
            for a in aps}


def total_of(T, n):
    return b_and(*[b_or(*T[i]) for i in range(n)])


def total_text(n, p='t', fixed=None):
    """the totality assumption as SMT-LIB text (independent of any DAG)"""
    fixed = fixed or {}

    def nm(i, j):
        k = '%s_%d_%d' % (p, i, j)
        return ('true' if fixed[k] else 'false') if k in fixed else k
    return '(and true %s)' % ' '.join('(or false %s)' % ' '.join(nm(i, j) for j in range(n)) for i in range(n))


class KH:
    """one symbolic Kripke structure fed to the real constructor"""
    pass


def sym_kripke(n, aps=('p', 'q'), mods=CTL_MODS, fold=True, care_total=True, extra=(), fixed=None, perm=None,
               bounds=None, max_unroll=400, states=None, S0=None, label_pool=None, junk=None):
    """Build Kripke(S, R, L) through the real constructor with unknown transitions/labels.
    fixed: {unknown name: bool} values decided by forking.  perm: order in which states are presented (and iterated).
    states: concrete state objects (default 0..n-1).  Returns KH with vm, ctx, fr, T, lab, K, total, names."""
    fixed = fixed or {}
    names = [x for x in tnames(n) + lnames(n, aps) + list(extra) if x not in fixed]
    h = KH()
    h.n, h.aps, h.names, h.fixed = n, tuple(aps), names, fixed
    h.states = list(states) if states is not None else list(range(n))
    if fold:
        assert len(names) <= 18, 'too many unknowns for functional reduction: fork some'
        enable_tt(names)
        if care_total:
            T0 = matrix(n, fixed=fixed)
            care = total_of(T0, n)
            if care is False:
                return None
            restrict_care(care)
    vm = VM(mods, max_unroll=max_unroll, check_unroll=False)
    if bounds:
        vm.bounds = dict(bounds)
    ctx, fr = harness_ctx(vm)
    T = matrix(n, fixed=fixed)
    lab = labels(n, aps, fixed=fixed)
    order = list(perm) if perm is not None else list(range(n))
    if perm is not None:
        pos = {h.states[s]: k for k, s in enumerate(order)}
        see.ORDER['key'] = lambda x: pos.get(x, len(pos)) if not isinstance(x, tuple) else tuple(pos.get(y, len(pos)) for y in x)
    st = h.states
    R = GSeq([(T[i][j], (st[i], st[j])) for i in order for j in order])
    L = MDict()
    for i in order:
        s = MSet()
        for a in aps:
            s.put(label_pool[a] if label_pool else a, lab[a][i])
        for jv in (junk or ()):
            s.put(jv, True)
        ctx.setitem(L, st[i], s)
    total = total_of(T, n)
    if not fold or not care_total:
        pass
    import pyModelChecking.kripke as KR
    kw = {'S': [st[i] for i in order], 'R': R, 'L': L}
    if S0 is not None:
        kw['S0'] = S0
    if care_total and not fold:
        ctx.g = total          # raw mode: run under the totality assumption as path guard
    K = ctx.call(KR.Kripke, [], kw)
    h.vm, h.ctx, h.fr, h.T, h.lab, h.K, h.total, h.R, h.L = vm, ctx, fr, T, lab, K, total, R, L
    return h


def vec(res, states):
    """membership guard of every state in a (guarded union of) symbolic set(s)"""
    def one(s, k):
        if isinstance(s, see.MObj) and hasattr(s, 'base'):
            s = s.base
        if isinstance(s, MSet):
            return s.get(k)
        if isinstance(s, (set, frozenset)):
            return k in s
        if s is None:
            return False        # poison: the call raised on these inputs (the exception guard says so)
        raise see.Unsupported('result is not a set: %r' % (s,))
    return [fold_b(res, lambda s, k=k: one(s, k)) for k in states]


def extra_keys(res, states):
    """guard: the result holds a key that is not one of `states`"""
    out = False
    for (g, s) in alts_of(res):
        if isinstance(s, see.MObj) and hasattr(s, 'base'):
            s = s.base
        if isinstance(s, MSet):
            for k, b in s.bits.items():
                if k not in states:
                    out = b_or(out, b_and(g, b))
        elif isinstance(s, (set, frozenset)):
            if any(k not in states for k in s):
                out = b_or(out, g)
    return out


def exc_guard(fr, only=None, but=None):
    gs = []
    for (g, e, _) in fr.exc:
        if only is not None and not isinstance(e, only):
            continue
        if but is not None and isinstance(e, but):
            continue
        gs.append(g)
    return b_or(*gs)


def exc_kinds(fr):
    return sorted({type(e).__name__ for (g, e, _) in fr.exc if g is not False})


def unwind_guard(vm):
    return b_or(*[gu for _, gu in vm.unwind])


def model_to_structure(model, n, aps, fixed=None):
    """solver model -> (R list, L dict) over states 0..n-1"""
    fixed = fixed or {}
    val = lambda k: fixed[k] if k in fixed else bool(model.get(k, False))
    R = [(i, j) for i in range(n) for j in range(n) if val('t_%d_%d' % (i, j))]
    L = {i: sorted(a for a in aps if val('l_%s_%d' % (a, i))) for i in range(n)}
    return R, L


class GView:
    """read-only view of a (guarded union of) DiGraph / Kripke object(s) in the evaluator's heap; every accessor returns
    a guard, whatever shape (one object, several alternatives, rebuilt dicts) the executed code produced"""

    def __init__(self, obj, attr='_next'):
        self.alts = []          # (guard, MDict)
        for (go, o) in alts_of(obj):
            if o is None or not isinstance(o, see.MObj):
                continue
            d = o.attrs.get(attr)
            for (gd, dd) in alts_of(d):
                if isinstance(dd, MDict):
                    self.alts.append((b_and(go, gd), dd))
        self.defined = b_or(*[g for g, _ in self.alts])

    def node(self, k):
        return b_or(*[b_and(g, d.present.get(k, False)) for g, d in self.alts])

    def member(self, k, e):
        """e is in the set stored under key k"""
        out = []
        for g, d in self.alts:
            if k in d.present:
                out.append(b_and(g, d.present[k], fold_b(d.vals[k], lambda q: self._get(q, e))))
        return b_or(*out)

    @staticmethod
    def _get(q, e):
        if isinstance(q, see.MObj) and hasattr(q, 'base'):
            q = q.base
        if isinstance(q, MSet):
            return q.get(e)
        if isinstance(q, (set, frozenset, list, tuple)):
            return e in q
        return False

    def foreign_keys(self, allowed):
        return b_or(*[b_and(g, p) for g, d in self.alts for k, p in d.present.items() if k not in allowed])

    def foreign_members(self, allowed):
        out = []
        for g, d in self.alts:
            for k in d.order:
                for (ga, q) in alts_of(d.vals[k]):
                    if isinstance(q, MSet):
                        out += [b_and(g, d.present[k], ga, b) for e, b in q.bits.items() if e not in allowed]
        return b_or(*out)

    def set_objects(self):
        out = []
        for g, d in self.alts:
            for k in d.order:
                out += [q for (ga, q) in alts_of(d.vals[k])]
        return out

    def dict_objects(self):
        return [d for g, d in self.alts]
