"""Explicit-state CTL* reference (sets of states, product tableau + Emerson-Lei), written independently of
verif.oracles; used to validate the circuit oracle on concrete structures and inside replay scripts.
`K` only needs .states(), .next(s), .labels(s) -- the data accessors, never a checker."""
import itertools, random, sys

def sub(f): return f.subformulas()
def name(f): return type(f).__name__

def sat_states(K, f, fair=None):
    """states of K satisfying CTL* state formula f (fair: list of sets or None)"""
    S=list(K.states())
    n=name(f)
    if n=='Bool': return set(S) if f._value else set()
    if n=='AtomicProposition':
        r={s for s in S if f.name in K.labels(s)}
        if fair is not None: r&=E_path(K,TRUE_TREE,fair)
        return r
    if n=='Not': return set(S)-sat_states(K,sub(f)[0],fair)
    if n=='Or': return set().union(*[sat_states(K,g,fair) for g in sub(f)])
    if n=='And':
        r=set(S)
        for g in sub(f): r&=sat_states(K,g,fair)
        return r
    if n=='Imply': return (set(S)-sat_states(K,sub(f)[0],fair))|sat_states(K,sub(f)[1],fair)
    if n=='E': return E_path(K,sub(f)[0],fair)
    if n=='A': return set(S)-E_path(K,('not',sub(f)[0]),fair)
    raise TypeError(f)

TRUE_TREE=('TRUE',)

def E_path(K,g,fair):
    # collect maximal state subformulas -> evaluate, treat as atoms
    S=list(K.states())
    memo={}
    def norm(h):
        # returns tuple tree with leaves ('st', frozenset(states))
        if h is TRUE_TREE: return ('st',frozenset(S))
        if isinstance(h,tuple): return ('not',norm(h[1]))
        n=name(h)
        if n in('Bool','AtomicProposition','E','A'): return ('st',frozenset(sat_states(K,h,fair)))
        if n=='Not': return ('not',norm(sub(h)[0]))
        if n=='Or':
            r=norm(sub(h)[0])
            for x in sub(h)[1:]: r=('or',r,norm(x))
            return r
        if n=='And':
            r=norm(sub(h)[0])
            for x in sub(h)[1:]: r=('not',('or',('not',r),('not',norm(x))))
            return r
        if n=='Imply': return ('or',('not',norm(sub(h)[0])),norm(sub(h)[1]))
        if n=='X': return ('X',norm(sub(h)[0]))
        if n=='F': return ('U',('st',frozenset(S)),norm(sub(h)[0]))
        if n=='G': return ('not',('U',('st',frozenset(S)),('not',norm(sub(h)[0]))))
        if n=='U': return ('U',norm(sub(h)[0]),norm(sub(h)[1]))
        if n=='R': return ('not',('U',('not',norm(sub(h)[0])),('not',norm(sub(h)[1]))))
        raise TypeError(h)
    t=norm(g)
    el=[]
    def collect(t):
        if t[0]=='st': return
        if t[0]=='X':
            if t not in el: el.append(t)
        if t[0]=='U':
            x=('X',t)
            if x not in el: el.append(x)
        for c in t[1:]: collect(c)
    collect(t)
    us=[]
    def collectU(t):
        if t[0]=='st': return
        if t[0]=='U' and t not in us: us.append(t)
        for c in t[1:]: collectU(c)
    collectU(t)
    def sat(t,s,a):
        if t[0]=='st': return s in t[1]
        if t[0]=='not': return not sat(t[1],s,a)
        if t[0]=='or': return sat(t[1],s,a) or sat(t[2],s,a)
        if t[0]=='X': return a[el.index(t)]
        if t[0]=='U': return sat(t[2],s,a) or (sat(t[1],s,a) and a[el.index(('X',t))])
    nodes=[(s,a) for s in S for a in itertools.product([False,True],repeat=len(el))]
    succ={v:[] for v in nodes}
    for (s,a) in nodes:
        for (s2,a2) in nodes:
            if s2 in K.next(s) and all(a[i]==sat(el[i][1],s2,a2) for i in range(len(el))):
                succ[(s,a)].append((s2,a2))
    # fairness sets
    fsets=[{v for v in nodes if (not sat(u,*v)) or sat(u[2],*v)} for u in us]
    if fair is not None:
        for P in fair: fsets.append({v for v in nodes if v[0] in P})
    # Emerson-Lei: gfp Z. AND_f EX E[Z U (Z & f)]  (with true if no fsets)
    def pre(X): return {v for v in nodes if any(w in X for w in succ[v])}
    def EU(A,B):
        R=set(B)
        while True:
            N=R|(A&pre(R))
            if N==R: return R
            R=N
    Z=set(nodes)
    while True:
        N=set(Z)
        if not fsets: N&=pre(Z)
        for f in fsets: N&=pre(EU(Z,Z&f))
        if N==Z: break
        Z=N
    good=EU(set(nodes),Z)
    return {s for (s,a) in good if sat(t,s,a)}

class Struct:
    """plain total structure: the explicit oracle's own input type"""
    def __init__(self,n,R,L):
        self.n=n; self.R=set(R); self.L={i:set(L.get(i,())) for i in range(n)}
    def states(self): return range(self.n)
    def next(self,s): return {b for (a,b) in self.R if a==s}
    def labels(self,s): return self.L[s]

def rand_struct(rng,n,aps=('p','q'),dens=0.4):
    while True:
        R=[(i,j) for i in range(n) for j in range(n) if rng.random()<dens]
        if all(any(i==a for a,b in R) for i in range(n)): break
    L={i:{a for a in aps if rng.random()<0.5} for i in range(n)}
    return Struct(n,R,L)
