"""C16 / C17: the real BDD unique table, apply, invert, restrict and the OBDD wrappers executed symbolically on the
ROBDDs of Boolean functions whose truth-table bits are unknowns."""
import itertools, time, ast
from . import see, oracles
from .see import (VM, Ctx, Frame, GSeq, MSet, MDict, MList, MObj, SChoice, LocalFn, var, b_and, b_or, b_not, b_xor, b_iff, b_ite,
                  fold_b, fold, is_c, alts_of, enable_tt, TT)
from .harness import harness_ctx, exc_guard, exc_kinds, unwind_guard
from .decide import Decider, start_lemma_log
from .common import write_replay, run_replay, SEED

MODS = {'pyModelChecking.BDD.BDD', 'pyModelChecking.BDD.ordering', 'pyModelChecking.BDD.OBDD'}
ALLV = ['a', 'b', 'c', 'd']


def bit(b):
    return SChoice([(b, True), (b_not(b), False)]) if not is_c(b) else b


def build(ctx, bits, vars_):
    """ROBDD of the function with the given truth-table bits (first variable = most significant) through the public
    BDDNode constructor, bottom-up"""
    import importlib
    BB = importlib.import_module('pyModelChecking.BDD.BDD')
    if not vars_:
        return ctx.call(BB.BDDNode, [bit(bits[0])], {})
    half = len(bits) // 2
    lo = build(ctx, bits[:half], vars_[1:])
    hi = build(ctx, bits[half:], vars_[1:])
    return ctx.call(BB.BDDNode, [vars_[0], lo, hi], {})


def den(node, asg, BB):
    """guard: the diagram rooted at the (guarded union of) node(s) evaluates to 1 under the concrete assignment"""
    def one(nd):
        if nd is None:
            return False
        if issubclass(nd.cls, BB.BDDTerminalNode):
            return fold_b(nd.attrs['value'], lambda v: bool(v))
        return fold_b(nd.attrs['var'], lambda v: den(nd.attrs['high'] if asg.get(v, False) else nd.attrs['low'], asg, BB))
    return fold_b(node, one)


def live_nodes(roots, BB):
    """{node object: guard under which it is reachable from one of the roots}"""
    live = {}
    order = []

    def visit(node, g):
        for (ga, nd) in alts_of(node):
            gg = b_and(g, ga)
            if gg is False or nd is None:
                continue
            old = live.get(id(nd))
            if old is not None:
                ng = b_or(old[1], gg)
                if ng is old[1]:
                    continue
                live[id(nd)] = (nd, ng)
            else:
                live[id(nd)] = (nd, gg)
                order.append(nd)
            if not issubclass(nd.cls, BB.BDDTerminalNode):
                visit(nd.attrs['low'], gg)
                visit(nd.attrs['high'], gg)
    for r in roots:
        visit(r, True)
    return [(nd, live[id(nd)][1]) for nd in order]


def same_obj(a, b):
    return fold_b(a, lambda x: fold_b(b, lambda y: x is y))


def structure_bad(roots, order_list, BB):
    """guards that must be unsat: two live non-terminals with the same (var, low, high); a live node with low is high;
    a node whose child tests a variable that is not later in the ordering"""
    nodes = live_nodes(roots, BB)
    nts = [(nd, g) for nd, g in nodes if not issubclass(nd.cls, BB.BDDTerminalNode)]
    pos = {v: i for i, v in enumerate(order_list)}
    bad = []
    for i, (a, ga) in enumerate(nts):
        bad.append(b_and(ga, same_obj(a.attrs['low'], a.attrs['high'])))                      # not reduced
        for child in ('low', 'high'):
            def later(c):
                if issubclass(c.cls, BB.BDDTerminalNode):
                    return True
                return fold_b(a.attrs['var'], lambda va: fold_b(c.attrs['var'], lambda vc: pos.get(va, -1) < pos.get(vc, -1)))
            bad.append(b_and(ga, b_not(fold_b(a.attrs[child], later))))                        # not ordered
        for (b, gb) in nts[i + 1:]:
            eqv = fold_b(a.attrs['var'], lambda va: fold_b(b.attrs['var'], lambda vb: va == vb))
            bad.append(b_and(ga, gb, eqv, same_obj(a.attrs['low'], b.attrs['low']), same_obj(a.attrs['high'], b.attrs['high'])))   # duplicate
    return [x for x in bad if x is not False], len(nodes)


def asgs_of(vars_):
    return [dict(zip(vars_, bits)) for bits in itertools.product([False, True], repeat=len(vars_))]


def setup(names):
    import importlib
    BB = importlib.import_module('pyModelChecking.BDD.BDD')
    see.reset()
    enable_tt(names)
    start_lemma_log(SEED)
    vm = VM(MODS, max_unroll=64, check_unroll=False)
    ctx, fr = harness_ctx(vm)
    return BB, vm, ctx, fr


def table_index(vars_, order_vars, asg):
    """index of assignment asg in the truth table laid out along order_vars (most significant first)"""
    i = 0
    for v in order_vars:
        i = i * 2 + (1 if asg[v] else 0)
    return i


def pair_task(k, op, order_vars=None, fixed=None):
    """all ordered pairs of k-variable functions: canonicity, apply(op), structure of everything live.
    fixed: {bit name: bool} pins some truth-table bits (e.g. one operand a literal), the rest stay unknown"""
    import importlib
    OB = importlib.import_module('pyModelChecking.BDD.OBDD')
    from pyModelChecking.BDD.ordering import ListOrdering
    fixed = fixed or {}
    vars_ = ALLV[:k]
    order_vars = list(order_vars or vars_)
    nb = 1 << k
    names = [n_ for n_ in ['f%d' % i for i in range(nb)] + ['g%d' % i for i in range(nb)] if n_ not in fixed]
    BB, vm, ctx, fr = setup(names)
    t0 = time.time()
    f = [fixed['f%d' % i] if 'f%d' % i in fixed else var('f%d' % i) for i in range(nb)]
    g = [fixed['g%d' % i] if 'g%d' % i in fixed else var('g%d' % i) for i in range(nb)]
    F = build(ctx, f, order_vars)
    G = build(ctx, g, order_vars)
    OA = ctx.call(OB.OBDD, [F, list(order_vars)], {})
    OG = ctx.call(OB.OBDD, [G, list(order_vars)], {})
    roots = [F, G]
    same_root = same_obj(F, G)
    eqv = ctx.call(ctx.getattr1(OA, '__eq__'), [OG], {})
    impl = [same_root, see.as_b(eqv) if isinstance(eqv, (bool, see.SBool)) else fold_b(eqv, lambda x: bool(x))]
    asgs = asgs_of(order_vars)
    dF = [den(F, a, BB) for a in asgs]
    dG = [den(G, a, BB) for a in asgs]
    impl += dF + dG
    res_roots = {}
    if op in ('and', 'or', 'xor'):
        meth = {'and': '__and__', 'or': '__or__', 'xor': '__xor__'}[op]
        R = ctx.call(ctx.getattr1(OA, meth), [OG], {})
        Rroot = fold(R, lambda o: o.attrs['root'])
        res_roots[op] = Rroot
        roots.append(Rroot)
        impl += [den(Rroot, a, BB) for a in asgs]
        # the result must be THE diagram of its function: identical to the one built bottom-up when tables agree is
        # covered by canonicity of (F,G); here: result identical to F when g == f (and/or) / to the constant
    sbad, nlive = structure_bad(roots, order_vars, BB)
    bad = sbad + [exc_guard(fr), unwind_guard(vm)]
    t1 = time.time()
    encoded = sorted(vm.encoded)
    kinds = exc_kinds(fr)
    d = Decider(timeout_ms=1800000)
    f2 = [fixed['f%d' % i] if 'f%d' % i in fixed else var('f%d' % i) for i in range(nb)]
    g2 = [fixed['g%d' % i] if 'g%d' % i in fixed else var('g%d' % i) for i in range(nb)]
    eq_tab = b_and(*[b_iff(x, y) for x, y in zip(f2, g2)])
    want = [eq_tab, eq_tab] + f2 + g2
    if op in ('and', 'or', 'xor'):
        pyop = {'and': b_and, 'or': b_or, 'xor': b_xor}[op]
        want += [pyop(x, y) for x, y in zip(f2, g2)]
    r = d.differ(impl, want, bad)
    rec = dict(kind='pair', k=k, op=op, order=order_vars, verdict=r, encode_s=round(t1 - t0, 2), live_nodes=nlive, exc=kinds, encoded=encoded, fixed={k_: bool(v) for k_, v in fixed.items()})
    if r == 'sat':
        rec['model'] = dict(d.differ_model(impl, want, bad), **{k_: bool(v) for k_, v in fixed.items()})
    rec['twin'] = d.holds(same_root) if not is_c(same_root) else 'sat'
    rec['audit'] = d.audit(batch=1000)
    rec.update(d.stats())
    d.close()
    return rec


def unary_task(k, what, order_vars=None):
    """one symbolic k-variable function: ~F, F.restrict(v,b) for all v,b, variables(), str round trip is C18"""
    import importlib
    OB = importlib.import_module('pyModelChecking.BDD.OBDD')
    vars_ = ALLV[:k]
    order_vars = list(order_vars or vars_)
    nb = 1 << k
    names = ['f%d' % i for i in range(nb)]
    BB, vm, ctx, fr = setup(names)
    t0 = time.time()
    f = [var('f%d' % i) for i in range(nb)]
    F = build(ctx, f, order_vars)
    OA = ctx.call(OB.OBDD, [F, list(order_vars)], {})
    asgs = asgs_of(order_vars)
    roots = [F]
    impl, wantspec = [], []
    if what == 'invert':
        N = ctx.call(ctx.getattr1(OA, '__invert__'), [], {})
        Nroot = fold(N, lambda o: o.attrs['root'])
        roots.append(Nroot)
        impl += [den(Nroot, a, BB) for a in asgs]
        wantspec += [('not', i) for i in range(nb)]
        NN = ctx.call(fold(N, lambda o: ctx.getattr1(o, '__invert__')), [], {})
        NNroot = fold(NN, lambda o: o.attrs['root'])
        impl.append(same_obj(NNroot, F))              # double negation gives back the identical root
        wantspec.append(('true',))
    elif what.startswith('restrict'):
        # 'restrict' = every variable (and a name outside the ordering) x (False, True, 0, 1); 'restrict:v' = variable v x (0, 1)
        only = what.split(':')[1] if ':' in what else None
        for v in ([only] if only else order_vars + ['zz']):
            for b in ((0, 1) if only else (False, True, 0, 1)):
                Rr = ctx.call(ctx.getattr1(OA, 'restrict'), [v, b], {})
                Rroot = fold(Rr, lambda o: o.attrs['root'])
                roots.append(Rroot)
                for i, a in enumerate(asgs):
                    a2 = dict(a)
                    if v in a2:
                        a2[v] = bool(b)
                    impl.append(den(Rroot, a, BB))
                    wantspec.append(('bit', asgs.index(a2)))
    elif what == 'variables':
        Vs = ctx.call(ctx.getattr1(OA, 'variables'), [], {})
        for vi, v in enumerate(order_vars):
            impl.append(fold_b(Vs, lambda s: s.get(v) if isinstance(s, MSet) else (v in s)))
            wantspec.append(('support', v))
        extra = False
        for (ga, s) in alts_of(Vs):
            if isinstance(s, MSet):
                for kk, bb in s.bits.items():
                    if kk not in order_vars:
                        extra = b_or(extra, b_and(ga, bb))
        impl.append(extra)
        wantspec.append(('false',))
    sbad, nlive = structure_bad(roots, order_vars, BB)
    bad = sbad + [exc_guard(fr), unwind_guard(vm)]
    t1 = time.time()
    encoded = sorted(vm.encoded)
    kinds = exc_kinds(fr)
    d = Decider(timeout_ms=1800000)
    f2 = [var('f%d' % i) for i in range(nb)]
    want = []
    for w in wantspec:
        if w[0] == 'not':
            want.append(b_not(f2[w[1]]))
        elif w[0] == 'bit':
            want.append(f2[w[1]])
        elif w[0] == 'true':
            want.append(True)
        elif w[0] == 'false':
            want.append(False)
        else:
            v = w[1]
            dep = False
            for i, a in enumerate(asgs):
                a2 = dict(a)
                a2[v] = not a[v]
                dep = b_or(dep, b_xor(f2[i], f2[asgs.index(a2)]))
            want.append(dep)
    r = d.differ(impl, want, bad)
    rec = dict(kind='unary', k=k, op=what, order=order_vars, verdict=r, encode_s=round(t1 - t0, 2), live_nodes=nlive, exc=kinds, encoded=encoded)
    if r == 'sat':
        rec['model'] = d.differ_model(impl, want, bad)
    rec['twin'] = d.holds(impl[0])
    rec['audit'] = d.audit(batch=1000)
    rec.update(d.stats())
    d.close()
    return rec


# ------------------------------------------------------------------ C18: the expression parser on a SYMBOLIC syntax tree
INT_KINDS = ['&', '|', 'and', 'or', '~', 'not', 'leaf', 'and3']
LEAF_KINDS = ['a', 'b', 'c', '0', '1', 'True', 'False', 'd']        # 'd' is outside the ordering: RuntimeError <=> a used leaf is d


def onehot3(prefix, fixed=None):
    """8-way choice from 3 unknown bits -> list of 8 guards"""
    fixed = fixed or {}
    bits = [fixed[prefix + str(i)] if (prefix + str(i)) in fixed else var(prefix + str(i)) for i in range(3)]
    out = []
    for code in range(8):
        out.append(b_and(*[(bits[i] if (code >> i) & 1 else b_not(bits[i])) for i in range(3)]))
    return out


def leaf_ast(code):
    k = LEAF_KINDS[code]
    if k in ('a', 'b', 'c', 'd'):
        return ast.Name(id=k, ctx=ast.Load())
    return ast.Constant(value={'0': 0, '1': 1, 'True': True, 'False': False}[k])


def choice(pairs):
    res = see.UNDEF
    for (g, v) in reversed(pairs):
        if g is False:
            continue
        res = see.merge(g, v, res)
    return res


def sym_tree(fixed, depth2=True):
    """symbolic syntax tree of depth <= 2: root, two children, four grandchildren (leaves).
    returns (ast value, evaluator(asg)->guard, uses_d guard, describe(model)->text)"""
    gl = {p: onehot3('g%s_' % p, fixed) for p in ('00', '01', '10', '11')}
    leaves = {p: choice([(gl[p][c], leaf_ast(c)) for c in range(8)]) for p in gl}

    def internal(sel, L, R):
        alts = []
        for code, k in enumerate(INT_KINDS):
            if k == '&':
                nd = ast.BinOp(left=L, op=ast.BitAnd(), right=R)
            elif k == '|':
                nd = ast.BinOp(left=L, op=ast.BitOr(), right=R)
            elif k == 'and':
                nd = ast.BoolOp(op=ast.And(), values=[L, R])
            elif k == 'or':
                nd = ast.BoolOp(op=ast.Or(), values=[L, R])
            elif k == 'and3':
                nd = ast.BoolOp(op=ast.And(), values=[L, R, L])
            elif k == '~':
                nd = ast.UnaryOp(op=ast.Invert(), operand=L)
            elif k == 'not':
                nd = ast.UnaryOp(op=ast.Not(), operand=L)
            else:
                nd = None
            alts.append((sel[code], nd))
        return alts
    kc = {p: onehot3('c%s_' % p, fixed) for p in ('0', '1')}
    child = {}
    for p in ('0', '1'):
        alts = internal(kc[p], leaves[p + '0'], leaves[p + '1'])
        leaf_g = kc[p][INT_KINDS.index('leaf')]
        pairs = [(g, nd) for g, nd in alts if nd is not None]
        # kind 'leaf': this position is the leaf described by its left grandchild
        lalts = [(b_and(leaf_g, gg), v) for gg, v in alts_of(leaves[p + '0'])]
        child[p] = choice(pairs + lalts)
    kr = onehot3('r_', fixed)
    alts = internal(kr, child['0'], child['1'])
    leaf_g = kr[INT_KINDS.index('leaf')]
    root = choice([(g, nd) for g, nd in alts if nd is not None] + [(b_and(leaf_g, gg), v) for gg, v in alts_of(child['0'])])

    def ev_leaf(p, asg):
        return b_or(*[b_and(gl[p][c], {'a': asg['a'], 'b': asg['b'], 'c': asg['c'], 'd': False, '0': False, '1': True, 'True': True, 'False': False}[LEAF_KINDS[c]])
                      for c in range(8)])

    def ev_int(sel, L, R):
        k = {n: sel[i] for i, n in enumerate(INT_KINDS)}
        return b_or(b_and(b_or(k['&'], k['and'], k['and3']), L, R), b_and(b_or(k['|'], k['or']), b_or(L, R)),
                    b_and(b_or(k['~'], k['not']), b_not(L)), b_and(k['leaf'], L))

    def evaluate(asg):
        c0 = ev_int(kc['0'], ev_leaf('00', asg), ev_leaf('01', asg))
        c1 = ev_int(kc['1'], ev_leaf('10', asg), ev_leaf('11', asg))
        return ev_int(kr, c0, c1)
    D = LEAF_KINDS.index('d') if 'd' in LEAF_KINDS else None
    unary = lambda sel: b_or(sel[INT_KINDS.index('~')], sel[INT_KINDS.index('not')], sel[INT_KINDS.index('leaf')])
    used = {}
    used['0'] = True
    used['1'] = b_not(unary(kr))
    for p in ('0', '1'):
        used[p + '0'] = used[p]
        used[p + '1'] = b_and(used[p], b_not(unary(kc[p])))
    uses_d = b_or(*[b_and(used[p], gl[p][D]) for p in gl]) if D is not None else False

    def describe(m):
        val = lambda nm_: bool(fixed.get(nm_, m.get(nm_, False)))
        code = lambda pre: sum((1 << i) for i in range(3) if val(pre + str(i)))
        lf = lambda p: LEAF_KINDS[code('g%s_' % p)]

        def node(kind, L, R):
            if kind in ('&', '|', 'and', 'or'):
                return '(%s %s %s)' % (L, kind, R)
            if kind == 'and3':
                return '(%s and %s and %s)' % (L, R, L)
            if kind in ('~', 'not'):
                return '%s(%s)' % ('~' if kind == '~' else 'not ', L)
            return L
        c0 = node(INT_KINDS[code('c0_')], lf('00'), lf('01'))
        c1 = node(INT_KINDS[code('c1_')], lf('10'), lf('11'))
        return node(INT_KINDS[code('r_')], c0, c1)
    return root, evaluate, uses_d, describe



def chain_task(k, opname, order_vars, fixed=None):
    """`x1 and x2 and ... and xk` / `or`: ONE BoolOp node with k operands (the shape Python's ast gives a keyword chain), every operand
    an arbitrary leaf (a b c d 0 1 True False, 3 unknown bits each): the diagram denotes the conjunction/disjunction of the leaves,
    raises RuntimeError iff a leaf is outside the ordering, nothing else"""
    import importlib
    OB = importlib.import_module('pyModelChecking.BDD.OBDD')
    fixed = dict(fixed or {})
    order_vars = list(order_vars)
    names = [n_ for n_ in ['h%d_%d' % (j, i) for j in range(k) for i in range(3)] if n_ not in fixed]
    BB, vm, ctx, fr = setup(names)
    t0 = time.time()
    sel = [onehot3('h%d_' % j, fixed) for j in range(k)]
    leaves = [choice([(sel[j][c], leaf_ast(c)) for c in range(8)]) for j in range(k)]
    root = ast.BoolOp(op=ast.And() if opname == 'and' else ast.Or(), values=leaves)
    ordering = ctx.call(OB.Ordering, [list(order_vars)], {})
    res = ctx.call(OB.parse_binary_expr, [ordering, root], {})
    rt = exc_guard(fr, only=RuntimeError)
    other = exc_guard(fr, but=RuntimeError)
    ok_g = ctx.g
    Rroot = fold(res, lambda o: o.attrs['root'] if o is not None else None) if res is not None else None
    asgs = asgs_of(['a', 'b', 'c'])
    impl = [rt] + [b_and(ok_g, den(Rroot, a, BB)) if Rroot is not None else False for a in asgs]
    sbad, nlive = structure_bad([Rroot] if Rroot is not None else [], order_vars, BB)
    bad = [b_and(ok_g, x) for x in sbad] + [other, unwind_guard(vm)]
    t1 = time.time()
    encoded = sorted(vm.encoded)
    kinds = exc_kinds(fr)
    d = Decider(timeout_ms=600000)
    sel2 = [onehot3('h%d_' % j, fixed) for j in range(k)]
    D = LEAF_KINDS.index('d')

    def leafval(j, asg):
        return b_or(*[b_and(sel2[j][c], {'a': asg['a'], 'b': asg['b'], 'c': asg['c'], 'd': False, '0': False, '1': True, 'True': True, 'False': False}[LEAF_KINDS[c]])
                      for c in range(8)])
    uses_d = b_or(*[sel2[j][D] for j in range(k)]) if 'd' not in order_vars else False
    comb = (lambda xs: b_and(*xs)) if opname == 'and' else (lambda xs: b_or(*xs))
    want = [uses_d] + [b_and(b_not(uses_d), comb([leafval(j, a) for j in range(k)])) for a in asgs]
    r = d.differ(impl, want, bad)
    rec = dict(kind='chain', k=k, op=opname, order=order_vars, verdict=r, encode_s=round(t1 - t0, 2), exc=kinds, encoded=encoded, fixed=fixed)
    if r == 'sat':
        m = d.differ_model(impl, want, bad)
        code = lambda j: sum((1 << i) for i in range(3) if bool(fixed.get('h%d_%d' % (j, i), m.get('h%d_%d' % (j, i), False))))
        rec['text'] = (' %s ' % opname).join(LEAF_KINDS[code(j)] for j in range(k))
        rec['model'] = m
    # reachability witness: some leaf combination parses without raising (with a pinned constant operand the value itself may be constant)
    t_ok = d.holds(b_not(rt), ok_g)
    rec['twin'] = t_ok if t_ok == 'sat' else d.holds(rt)      # (with the pinned operand outside the ordering every combination raises)
    rec.update(d.stats())
    d.close()
    return rec

def ast_names(fixed):
    names = ['r_%d' % i for i in range(3)] + ['c%s_%d' % (p, i) for p in '01' for i in range(3)] + ['g%s_%d' % (p, i) for p in ('00', '01', '10', '11') for i in range(3)]
    return [n for n in names if n not in fixed]


def parser_task(fixed, order_vars):
    """parse_binary_expr on every syntax tree of depth <= 2 over & | and or ~ not / a b c d 0 1 True False"""
    import importlib
    OB = importlib.import_module('pyModelChecking.BDD.OBDD')
    order_vars = list(order_vars)
    BB, vm, ctx, fr = setup(ast_names(fixed))
    t0 = time.time()
    root, evaluate, uses_d, describe = sym_tree(fixed)
    ordering = ctx.call(OB.Ordering, [list(order_vars)], {})
    res = ctx.call(OB.parse_binary_expr, [ordering, root], {})
    rt = exc_guard(fr, only=RuntimeError)
    other = exc_guard(fr, but=RuntimeError)
    ok_g = ctx.g
    Rroot = fold(res, lambda o: o.attrs['root'] if o is not None else None) if res is not None else None
    asgs = asgs_of(['a', 'b', 'c'])
    impl = [rt]
    impl += [b_and(ok_g, den(Rroot, a, BB)) for a in asgs] if Rroot is not None else [False] * len(asgs)
    sbad, nlive = structure_bad([Rroot], order_vars, BB) if Rroot is not None else ([], 0)
    bad = [b_and(ok_g, x) for x in sbad] + [other, unwind_guard(vm)]
    t1 = time.time()
    encoded = sorted(vm.encoded)
    kinds = exc_kinds(fr)
    d = Decider(timeout_ms=600000)
    root2, evaluate2, uses_d2, _ = sym_tree(fixed)
    want = [uses_d2] + [b_and(b_not(uses_d2), evaluate2(a)) for a in asgs]
    r = d.differ(impl, want, bad)
    rec = dict(kind='parser', fixed=fixed, order=order_vars, verdict=r, encode_s=round(t1 - t0, 2), live_nodes=nlive, exc=kinds, encoded=encoded)
    if r == 'sat':
        m = d.differ_model(impl, want, bad)
        rec['model'] = m
        rec['expr'] = describe(m)
    rec['twin'] = d.holds(b_not(rt), impl[1]) if not is_c(impl[1]) else 'sat'
    rec['audit'] = d.audit(batch=1000)
    rec.update(d.stats())
    d.close()
    return rec


# ------------------------------------------------------------------ C16 part 2: one inductive step of the unique table
def bits_choice(prefix, options):
    """exclusive, exhaustive choice among `options` from ceil(log2) unknown bits (surplus codes fold onto the last option)"""
    nb = max(1, (len(options) - 1).bit_length())
    bits = [var('%s%d' % (prefix, i)) for i in range(nb)]
    guards = []
    for code in range(1 << nb):
        guards.append(b_and(*[(bits[i] if (code >> i) & 1 else b_not(bits[i])) for i in range(nb)]))
    sel = []
    for k in range(len(options)):
        g = guards[k] if k < len(options) - 1 else b_or(*guards[k:])
        sel.append(g)
    return sel


def unique_table_step(k=3):
    """Pre-state: an ARBITRARY pool of k non-terminal nodes (each live or collected, arbitrary variable, arbitrary children among
    the terminals and lower-numbered nodes) satisfying the representation invariant I; step: BDDNonTerminalNode(var, low, high)
    with arbitrary arguments among the live nodes; post: the specification of hash-consing and I again.  Run WITHOUT functional
    reduction (about 30 unknowns); the solver decides the raw circuits.  Garbage collection enters through the WeakSet contract:
    a collected node is absent from every parent set (so 'live' bits gate parent-set membership)."""
    import importlib
    BB = importlib.import_module('pyModelChecking.BDD.BDD')
    see.reset()
    t0 = time.time()
    vm = VM(MODS, max_unroll=16, check_unroll=False)
    ctx, fr = harness_ctx(vm)
    VARS = ['a', 'b', 'c']
    T0, T1 = MObj(BB.BDDTerminalNode), MObj(BB.BDDTerminalNode)
    T0.attrs['value'], T1.attrs['value'] = False, True
    nodes = [MObj(BB.BDDNonTerminalNode) for _ in range(k)]
    live = [var('live%d' % i) for i in range(k)]
    objs = [T0, T1] + nodes
    lowsel, highsel, varsel = [], [], []
    for i, n in enumerate(nodes):
        opts = [T0, T1] + nodes[:i]
        ls = bits_choice('lo%d_' % i, opts)
        hs = bits_choice('hi%d_' % i, opts)
        vs = bits_choice('v%d_' % i, VARS)
        lowsel.append(dict(zip(map(id, opts), ls)))
        highsel.append(dict(zip(map(id, opts), hs)))
        varsel.append(vs)
        n.attrs['low'] = choice(list(zip(ls, opts)))
        n.attrs['high'] = choice(list(zip(hs, opts)))
        n.attrs['var'] = choice(list(zip(vs, VARS)))
    # parent sets per the invariant I3 (and the WeakSet contract: only live parents are members)
    for c in objs:
        fl, fh = MSet(), MSet()
        for i, n in enumerate(nodes):
            fl.put(n, b_and(live[i], lowsel[i].get(id(c), False)))
            fh.put(n, b_and(live[i], highsel[i].get(id(c), False)))
        c.attrs['f_low'], c.attrs['f_high'] = fl, fh
    # invariant I1, I2 and liveness closure
    inv = []
    for i in range(k):
        same_child = b_or(*[b_and(lowsel[i].get(id(c), False), highsel[i].get(id(c), False)) for c in objs])
        inv.append(b_or(b_not(live[i]), b_not(same_child)))
        for j in range(i):
            inv.append(b_or(b_not(live[i]), b_not(b_or(lowsel[i].get(id(nodes[j]), False), highsel[i].get(id(nodes[j]), False))), live[j]))   # children of live nodes are live
            same_var = b_or(*[b_and(varsel[i][v], varsel[j][v]) for v in range(3)])
            same_low = b_or(*[b_and(lowsel[i].get(id(c), False), lowsel[j].get(id(c), False)) for c in objs])
            same_high = b_or(*[b_and(highsel[i].get(id(c), False), highsel[j].get(id(c), False)) for c in objs])
            inv.append(b_not(b_and(live[i], live[j], same_var, same_low, same_high)))
    # arguments
    asel_l = bits_choice('al_', objs)
    asel_h = bits_choice('ah_', objs)
    asel_v = bits_choice('av_', VARS)
    for x, sel in ((0, asel_l), (1, asel_h)):
        for i in range(k):
            inv.append(b_or(b_not(sel[2 + i]), live[i]))              # arguments are live nodes
    a_low, a_high, a_var = choice(list(zip(asel_l, objs))), choice(list(zip(asel_h, objs))), choice(list(zip(asel_v, VARS)))
    # snapshot of what must not change
    snap_attr = {(i, a): nodes[i].attrs[a] for i in range(k) for a in ('var', 'low', 'high')}
    snap_sets = {(id(c), w, id(n)): c.attrs[w].get(n) for c in objs for w in ('f_low', 'f_high') for n in nodes}
    res = ctx.call(BB.BDDNonTerminalNode, [a_var, a_low, a_high], {})
    excg = exc_guard(fr)
    unw = unwind_guard(vm)
    t1 = time.time()
    # ---- specification
    args_same = b_or(*[b_and(asel_l[x], asel_h[x]) for x in range(len(objs))])
    match = [b_and(live[i], b_or(*[b_and(asel_v[v], varsel[i][v]) for v in range(3)]),
                   b_or(*[b_and(asel_l[x], lowsel[i].get(id(objs[x]), False)) for x in range(len(objs))]),
                   b_or(*[b_and(asel_h[x], highsel[i].get(id(objs[x]), False)) for x in range(len(objs))])) for i in range(k)]
    exists = b_or(*match)
    is_obj = lambda o: fold_b(res, lambda r: r is o)
    fresh_alts = [(g, r) for (g, r) in alts_of(res) if isinstance(r, MObj) and not any(r is o for o in objs)]
    is_fresh = b_or(*[g for g, r in fresh_alts])
    bad = [excg, unw]
    # P1
    bad.append(b_and(args_same, b_not(b_or(*[b_and(asel_l[x], is_obj(objs[x])) for x in range(len(objs))]))))
    # P2
    for i in range(k):
        bad.append(b_and(b_not(args_same), match[i], b_not(is_obj(nodes[i]))))
    # P3
    bad.append(b_and(b_not(args_same), b_not(exists), b_not(is_fresh)))
    bad.append(b_and(is_fresh, b_or(args_same, exists)))
    for (g, r) in fresh_alts:
        okv = fold_b(r.attrs.get('var'), lambda v: fold_b(a_var, lambda w: v == w))
        okl = fold_b(r.attrs.get('low'), lambda v: fold_b(a_low, lambda w: v is w))
        okh = fold_b(r.attrs.get('high'), lambda v: fold_b(a_high, lambda w: v is w))
        reg_l = b_or(*[b_and(asel_l[x], objs[x].attrs['f_low'].get(r)) for x in range(len(objs))])
        reg_h = b_or(*[b_and(asel_h[x], objs[x].attrs['f_high'].get(r)) for x in range(len(objs))])
        bad.append(b_and(g, b_not(b_and(okv, okl, okh, reg_l, reg_h))))
        # the new node is registered nowhere else
        for x, c in enumerate(objs):
            bad.append(b_and(g, c.attrs['f_low'].get(r), b_not(asel_l[x])))
            bad.append(b_and(g, c.attrs['f_high'].get(r), b_not(asel_h[x])))
    # P5: the pool itself is untouched
    for (i, a), v in snap_attr.items():
        if nodes[i].attrs[a] is not v:
            bad.append(True)
    for c in objs:
        for w in ('f_low', 'f_high'):
            for n in nodes:
                bad.append(b_xor(c.attrs[w].get(n), snap_sets[id(c), w, id(n)]))
    encoded = sorted(vm.encoded)
    d = Decider(timeout_ms=900000)
    d.assume(b_and(*inv))
    r = d.violated(*[b for b in bad if b is not False])
    rec = dict(kind='unique-table step', k=k, verdict=r, encode_s=round(t1 - t0, 2), exc=exc_kinds(fr), encoded=encoded, unknowns=len(see.VAR_NAMES))
    if r == 'sat':
        rec['model'] = d.model_of(['(or false %s)' % ' '.join(d.term(b) for b in bad if b is not False)])
    rec['twin'] = d.holds(is_fresh)                       # some pre-state leads to an allocation
    rec['twin_reuse'] = d.holds(b_not(args_same), exists)     # some pre-state finds an isomorphic node
    rec['twin_inv'] = d.holds()
    rec.update(d.stats())
    d.close()
    return rec
