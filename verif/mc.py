"""The model-checking obligations (C01-C04, C06, C07, C15, C19): the real modelcheck functions executed on a
Kripke structure whose transitions and labels are unknowns, compared with the oracle circuits by the solver."""
import time, itertools, importlib
from . import see, oracles
from .see import (b_and, b_or, b_not, b_xor, b_iff, fold_b, is_c, alts_of, MSet, MDict, MList, MObj, SChoice, var, TT)
from .harness import (sym_kripke, vec, extra_keys, exc_guard, exc_kinds, unwind_guard, matrix, labels, total_text,
                      model_to_structure, CTL_MODS, LTL_MODS, ALL_MC_MODS)
from .decide import Decider, start_lemma_log
from .common import SEED, write_replay, run_replay

LOGIC_MODS = {'CTL': CTL_MODS, 'LTL': LTL_MODS, 'CTLS': ALL_MC_MODS}


def parse(logic, ftxt):
    mod = importlib.import_module('pyModelChecking.' + logic)
    return mod.Parser()(ftxt)


def bounds_for(n, logic):
    # code-derived bounds (DESIGN 2.4): reachability pops every node at most once; the SCC work loop runs |E|+n times per call
    b = {'DiGraph.get_reachable_set_from': 64 if logic != 'CTL' else n, 'compute_SCCs': 400 if logic != 'CTL' else n * n + n}
    return b


# ------------------------------------------------------------------ heap snapshots (C07)
def heap_sets(K):
    out = []
    for attr in ('_next', '_labels'):
        d = K.attrs.get(attr)
        if isinstance(d, MDict):
            for k in d.order:
                for (g, s) in alts_of(d.vals[k]):
                    out.append(s)
    s0 = K.attrs.get('S0')
    if s0 is not None:
        out += [s for (g, s) in alts_of(s0)]
    return out


def snapshot(K):
    snap = {'objs': {a: K.attrs.get(a) for a in ('_next', '_labels', 'S0')}, 'bits': {}}
    for attr in ('_next', '_labels'):
        d = K.attrs[attr]
        for k in d.order:
            snap['bits'][attr, k, None] = d.present[k]
            snap['bits'][attr, k, 'obj'] = d.vals[k]
            for (g, s) in alts_of(d.vals[k]):
                for e, b in s.bits.items():
                    snap['bits'][attr, k, ('e', id(s), e)] = b
    for (g, s) in alts_of(K.attrs['S0']):
        for e, b in s.bits.items():
            snap['bits']['S0', None, ('e', id(s), e)] = b
    return snap


def mutated(K, snap):
    """list of guards: some part of the caller's structure differs from its snapshot"""
    bad = []
    for a, o in snap['objs'].items():
        if K.attrs.get(a) is not o:
            bad.append(True)
            return bad
    for attr in ('_next', '_labels'):
        d = K.attrs[attr]
        for k in d.order:
            if (attr, k, None) not in snap['bits']:
                bad.append(d.present[k])
                continue
            bad.append(b_xor(d.present[k], snap['bits'][attr, k, None]))
            if d.vals[k] is not snap['bits'][attr, k, 'obj']:
                bad.append(d.present[k])
                continue
            for (g, s) in alts_of(d.vals[k]):
                for e, b in s.bits.items():
                    old = snap['bits'].get((attr, k, ('e', id(s), e)), False)
                    bad.append(b_and(d.present[k], g, b_xor(b, old)))
    for (g, s) in alts_of(K.attrs['S0']):
        for e, b in s.bits.items():
            bad.append(b_and(g, b_xor(b, snap['bits'].get(('S0', None, ('e', id(s), e)), False))))
    return [b for b in bad if b is not False]


def result_shape(res, K):
    """(guard: result is not a set, bool: result object shared with the structure)"""
    notset, shared = False, False
    hs = heap_sets(K)
    for (g, s) in alts_of(res):
        if isinstance(s, MObj) and hasattr(s, 'base'):
            continue
        if isinstance(s, MSet):
            if any(s is x for x in hs):
                shared = True
        elif isinstance(s, (set,)):
            pass
        else:
            notset = b_or(notset, g)
    return notset, shared


# ------------------------------------------------------------------ the task
def mc_task(logic, n, ftxts, opts=None):
    """for each formula text: run <logic>.modelcheck symbolically on all total structures with n states,
    decide result == oracle, no exception, loops complete, structure untouched, result shape.
    opts: fold, fixed, perm, aps, recall (call again after mutating the result), audit, order_states"""
    opts = dict(opts or {})
    fold = opts.get('fold', True)
    fixed = opts.get('fixed') or {}
    if opts.get('edge_then_call'):
        fixed = dict(fixed)
        fixed['t_%d_%d' % tuple(opts['edge_then_call'])] = False       # add_edge's precondition: the edge is not there yet
    perm = opts.get('perm')
    aps = tuple(opts.get('aps', ('p', 'q')))
    audit = opts.get('audit', True)
    lab_pool = opts.get('label_pool')
    states = opts.get('states')
    mcmod = importlib.import_module('pyModelChecking.%s.model_checking' % logic)
    out = []
    import signal

    class _Limit(Exception):
        pass

    def _alarm(*a):
        raise _Limit()
    for ftxt in ftxts:
        see.reset()
        t0 = time.time()
        rec = dict(formula=ftxt, logic=logic, n=n, perm=perm, fold=fold, fixed=fixed, auxiliary=bool(opts.get('auxiliary')))
        if opts.get('time_limit'):
            signal.signal(signal.SIGALRM, _alarm)
            signal.alarm(int(opts['time_limit']))
        try:
            f = parse(logic, ftxt)
            fstr0 = str(f)
            if fold:
                start_lemma_log(SEED)
            nfair = opts.get('fair')
            fair_names = ['f%d' % k for k in range(nfair)] if nfair is not None else []
            extra = ['%s_%d' % (fn_, i) for fn_ in fair_names for i in range(n)] if not opts.get('fair_const') else []
            mods = set(LOGIC_MODS[logic])
            for o in opts.get('also', ()):
                mods |= LOGIC_MODS[o]
            h = sym_kripke(n, aps=aps, mods=mods, fold=fold, care_total=True, fixed=fixed, perm=perm,
                           bounds=bounds_for(n, 'CTLS' if opts.get('also') else logic), states=states, label_pool=lab_pool, extra=extra,
                           junk=opts.get('junk'))
            if opts.get('tie') is not None:
                see.ORDER['tie'] = opts['tie']
            if h is None:
                rec.update(verdict='unsat', skipped='no total structure on this fork', queries=0, solver_s=0, gates=0)
                out.append(rec)
                continue
            st = h.states
            snap = snapshot(h.K)
            kw = {}
            if nfair is not None:
                Fl = []
                for fn_ in fair_names:
                    P = MSet()
                    for i in range(n):
                        P.put(st[i], True if opts.get('fair_const') else (fixed['%s_%d' % (fn_, i)] if '%s_%d' % (fn_, i) in fixed else var('%s_%d' % (fn_, i))))
                    Fl.append(P)
                kw['F'] = MList(Fl)
            res = h.ctx.call(mcmod.modelcheck, [h.K, f], kw)
            resv = vec(res, st)
            bad_exact = [extra_keys(res, st)]
            excg = exc_guard(h.fr)
            kinds = exc_kinds(h.fr)
            notset, shared = result_shape(res, h.K)
            mut = mutated(h.K, snap)
            resv2 = None
            if opts.get('recall'):
                for (g, s) in alts_of(res):
                    if isinstance(s, MSet):
                        for k in list(s.bits):
                            s.put(k, b_not(s.bits[k]))
                        s.put('junk', True)
                res2 = h.ctx.call(mcmod.modelcheck, [h.K, f], kw)
                resv2 = vec(res2, st)
                excg = exc_guard(h.fr)
                mut = mutated(h.K, snap)
            extra_pairs = {}
            for o in opts.get('also', ()):
                omod = importlib.import_module('pyModelChecking.%s.model_checking' % o)
                of = parse(o, opts.get('also_text', {}).get(o, ftxt))
                ores = h.ctx.call(omod.modelcheck, [h.K, of], {})
                extra_pairs['agree_' + o] = vec(ores, st)
            if opts.get('as_text'):
                tres = h.ctx.call(mcmod.modelcheck, [h.K, ftxt], kw)
                extra_pairs['textobj'] = vec(tres, st)
            if opts.get('interleave'):
                # the same formula on another structure (labels complemented, transitions reversed where total), then K again
                import pyModelChecking.kripke as KR
                L2 = MDict()
                for i in range(n):
                    s2 = MSet()
                    for a in aps:
                        s2.put(a, b_not(h.lab[a][i]))
                    h.ctx.setitem(L2, st[i], s2)
                K2 = h.ctx.call(KR.Kripke, [], {'S': list(st), 'R': h.R, 'L': L2})
                h.ctx.call(mcmod.modelcheck, [K2, f], kw)
                res3 = h.ctx.call(mcmod.modelcheck, [h.K, f], kw)
                extra_pairs['determ'] = vec(res3, st)
                if logic in ('CTL', 'CTLS'):
                    # the same checker called with the OTHER kind of arguments in between (with a fairness constraint if this call has
                    # none, without if it has one), on the other structure; whatever that call does or raises is not the subject here
                    kw2 = dict(kw)
                    if 'F' in kw2:
                        del kw2['F']
                    else:
                        Pall = MSet()
                        for i in range(n):
                            Pall.put(st[i], True)
                        kw2['F'] = MList([Pall])
                    c_other = see.Ctx(h.vm, see.Frame('<other-args>'), h.ctx.g)
                    c_other.call(mcmod.modelcheck, [K2, f], kw2)
                    res4 = h.ctx.call(mcmod.modelcheck, [h.K, f], kw)
                    extra_pairs['determ_args'] = vec(res4, st)
            if extra_pairs:
                excg = exc_guard(h.fr)
                mut = mutated(h.K, snap)
            resv_edit = resv_edge = None
            if opts.get('edit_then_call') and nfair is None:
                # the CALLER edits its structure in place (adds atom p to the last state) and asks again: the answer must be the
                # answer for the edited structure (a memo that outlives the call and is keyed by the object would be stale)
                last = st[n - 1]
                for (gl_, s_) in alts_of(h.K.attrs['_labels'].vals[last]):
                    if isinstance(s_, MSet):
                        s_.put(lab_pool['p'] if lab_pool else 'p', True)
                res_e = h.ctx.call(mcmod.modelcheck, [h.K, f], kw)
                resv_edit = vec(res_e, st)
                excg = exc_guard(h.fr)
                if opts.get('edge_then_call'):
                    # ... then adds a transition through the structure's own API and asks once more (anything derived from the
                    # transition relation and kept inside K or its class - SCCs, a reversed graph - would be stale now)
                    ea, eb = opts['edge_then_call']
                    h.ctx.call(h.ctx.getattr1(h.K, 'add_edge'), [st[ea], st[eb]], {})
                    res_g = h.ctx.call(mcmod.modelcheck, [h.K, f], kw)
                    resv_edge = vec(res_g, st)
                    excg = exc_guard(h.fr)
            unw = unwind_guard(h.vm)
            t1 = time.time()
            rec.update(encode_s=round(t1 - t0, 2), exc=kinds, loops={('%s:%d' % k): v for k, v in h.vm.stats['loops'].items()},
                       encoded=sorted(h.vm.encoded), shared=shared, formula_changed=(str(f) != fstr0), stmts=h.vm.stats['stmts'])
            # ---- decide
            care = total_text(n, fixed=fixed)
            depths = None
            if (logic != 'CTL' or opts.get('ctls_oracle')) and not opts.get('sub_n'):
                depths = oracle_depths(f, n, aps, fixed, fair_names if nfair is not None else None, const=bool(opts.get('fair_const')), pool=lab_pool)
            d = Decider(care, timeout_ms=opts.get('timeout_ms', 600000), record=bool(opts.get('cross')))
            T2, lab2 = matrix(n, fixed=fixed), labels(n, aps, fixed=fixed)
            if lab_pool:
                lab2 = {lab_pool[a]: v for a, v in lab2.items()}
            sub_n = opts.get('sub_n')
            if sub_n:
                # the oracle only sees the sub-structure on the first sub_n states (the others are unreachable from it)
                want = oracles.ctls(f, [row[:sub_n] for row in T2[:sub_n]], {a: v[:sub_n] for a, v in lab2.items()}, sub_n,
                                    depths=oracles.Depths('fixed', inner=sub_n * 16, outer=sub_n * 16))
                resv = resv[:sub_n]
                stable = False
                rec['oracle'] = 'CTL* oracle on the %d-state sub-structure only' % sub_n
            elif logic == 'CTL' and not opts.get('ctls_oracle'):
                want = oracles.ctl(f, T2, lab2, n)
                rec['oracle'] = 'CTL fixpoints, n unrollings each'
                stable = False
            else:
                dp = oracles.Depths('fixed', inner=depths.max_inner, outer=depths.max_outer)
                ost = []
                fair2 = [[True if opts.get('fair_const') else (fixed['%s_%d' % (fn_, i)] if '%s_%d' % (fn_, i) in fixed else var('%s_%d' % (fn_, i))) for i in range(n)] for fn_ in fair_names] if nfair is not None else None
                want = oracles.ctls(f, T2, lab2, n, fair=fair2, depths=dp, stats=ost)
                if nfair is not None and opts.get('assume_all_fair'):
                    d.assume(b_and(*oracles.fair_states(T2, n, fair2, oracles.Depths('fixed', inner=depths.max_inner, outer=depths.max_outer))))
                    rec['assumed2'] = 'outside known-finding class D10 (every state starts a fair path)'
                if nfair is not None and opts.get('outside_d7', True):
                    d.assume(b_not(d7_class(T2, fair2, n)))
                    rec['assumed'] = 'outside known-finding class D7 (a fair SCC that is a single state or has a state without self-loop)'
                stable = dp.unstable
                rec['oracle'] = dict(kind='product + Emerson-Lei', inner_unrollings=depths.max_inner, outer_unrollings=depths.max_outer,
                                     products=ost)
            allbad = bad_exact + [excg, unw, notset, stable] + mut
            r_all = d.differ(resv, want, allbad)
            if r_all == 'unsat':
                # one query proves every aspect at once
                rec.update(verdict='unsat', noexc='unsat', unwind='unsat', pure='unsat', isset='unsat', stable='unsat')
            else:
                r = d.differ(resv, want, bad_exact)
                rec['verdict'] = r
                if r == 'sat':
                    rec['model'] = d.differ_model(resv, want, bad_exact)
                rec['noexc'] = d.violated(excg) if excg is not False else 'unsat'
                if rec['noexc'] == 'sat':
                    rec['exc_model'] = d.model_of([d.term(excg)])
                rec['unwind'] = d.violated(unw) if unw is not False else 'unsat'
                rec['pure'] = d.violated(*mut) if mut else 'unsat'
                if rec['pure'] == 'sat':
                    rec['pure_model'] = d.model_of(['(or false %s)' % ' '.join(d.term(b) for b in mut)])
                rec['isset'] = d.violated(notset) if notset is not False else 'unsat'
                rec['stable'] = d.violated(stable) if stable is not False else 'unsat'
            if resv2 is not None:
                rec['recall'] = d.differ(resv2, want)
                if rec['recall'] == 'sat':
                    rec['recall_model'] = d.differ_model(resv2, want)
                rec['recall_same'] = d.differ(resv, resv2)          # implementation vs implementation
                if rec['recall_same'] == 'sat':
                    rec['recall_same_model'] = d.differ_model(resv, resv2)
            if resv_edit is not None:
                lab3 = {a: list(v) for a, v in lab2.items()}
                pk = lab_pool['p'] if lab_pool else 'p'
                lab3[pk] = list(lab3[pk])
                lab3[pk][n - 1] = True
                want_e = oracles.ctl(f, T2, lab3, n) if (logic == 'CTL' and not opts.get('ctls_oracle')) else \
                    oracles.ctls(f, T2, lab3, n, depths=oracles.Depths('fixed', inner=(depths.max_inner if depths else n * 8) + 2, outer=(depths.max_outer if depths else n * 8) + 2))
                rec['after_edit'] = d.differ(resv_edit, want_e)
                if rec['after_edit'] == 'sat':
                    rec['after_edit_model'] = d.differ_model(resv_edit, want_e)
                if resv_edge is not None:
                    ea, eb = opts['edge_then_call']
                    T3 = [list(row) for row in T2]
                    T3[ea][eb] = True
                    want_g = oracles.ctl(f, T3, lab3, n) if (logic == 'CTL' and not opts.get('ctls_oracle')) else \
                        oracles.ctls(f, T3, lab3, n, depths=oracles.Depths('fixed', inner=(depths.max_inner if depths else n * 8) + 4, outer=(depths.max_outer if depths else n * 8) + 4))
                    rec['edge'] = [ea, eb]
                    rec['after_edge'] = d.differ(resv_edge, want_g)
                    if rec['after_edge'] == 'sat':
                        rec['after_edge_model'] = d.differ_model(resv_edge, want_g)
            for nm_, v2 in extra_pairs.items():
                rec[nm_] = d.differ(resv, v2)              # implementation vs implementation
                if rec[nm_] == 'sat':
                    rec[nm_ + '_model'] = d.differ_model(resv, v2)
            # twin: the answer is not a constant vector (the structure matters) and the assumption is satisfiable
            rec['care_sat'] = d.holds()
            nontriv = any(not is_c(x) for x in resv)
            rec['nontrivial'] = bool(nontriv) and d.holds(resv[0]) == 'sat' and d.holds(b_not(resv[0])) == 'sat' if not is_c(resv[0]) else bool(nontriv)
            if fold and audit:
                rec['audit'] = d.audit(batch=1000)
            if opts.get('cross'):
                rec['cross'] = d.cross()
            rec.update(d.stats())
            d.close()
        except see.Unsupported as e:
            rec.update(verdict='unsupported', error='Unsupported: %s at %s' % (e, see.TRACE[-3:]))
        except _Limit:
            rec.update(verdict='unsupported', error='time limit of %ss for this run exceeded' % opts.get('time_limit'))
        finally:
            if opts.get('time_limit'):
                signal.alarm(0)
        out.append(rec)
    return out


def oracle_depths(f, n, aps, fixed, fair_names=None, const=False, pool=None):
    """number of unrollings the product fixpoints need, found with functional reduction on (not trusted: the raw oracle
    is emitted with these depths and the solver proves that one more unrolling changes nothing)"""
    from .harness import tnames, lnames, total_of
    was_on = TT['on']
    if not was_on:
        names = [x for x in tnames(n) + lnames(n, aps) + ([] if const else ['%s_%d' % (fn_, i) for fn_ in (fair_names or ()) for i in range(n)]) if x not in fixed]
        see.enable_tt(names)
        care = total_of(matrix(n, fixed=fixed), n)
        see.restrict_care(care)
    dp = oracles.Depths('stable')
    T, lab = matrix(n, fixed=fixed), labels(n, aps, fixed=fixed)
    if pool:
        lab = {pool[a]: v for a, v in lab.items()}
    fair = [[True if const else (fixed['%s_%d' % (nm, i)] if '%s_%d' % (nm, i) in fixed else var('%s_%d' % (nm, i))) for i in range(n)] for nm in fair_names] if fair_names is not None else None
    oracles.ctls(f, T, lab, n, fair=fair, depths=dp)
    if not was_on:
        see.tt_off()
    return dp


def d7_class(T, fair, n):
    """known-finding class D7 (kripke.py::get_fair_states/is_a_fair_SCC): some non-trivial SCC that meets every
    fairness set is a single state, or contains a state without a self-loop.  Outside this class the implementation's
    acceptance test agrees with the definition."""
    reach = oracles.closure(T, n)
    plus = oracles.closure_plus(T, n)
    out = []
    for j in range(n):
        same = [b_and(reach[j][k], reach[k][j]) for k in range(n)]
        fairscc = b_and(plus[j][j], *[b_or(*[b_and(same[k], P[k]) for k in range(n)]) for P in fair])
        single = b_and(*[b_not(same[k]) for k in range(n) if k != j])
        out.append(b_and(fairscc, b_or(b_not(T[j][j]), single)))
    return b_or(*out)


# ------------------------------------------------------------------ replay
MC_REPLAY = '''
sys.path.insert(0, %(root)r)
from pyModelChecking import Kripke, CTL, LTL, CTLS
from verif import explicit
logic, ftxt = %(logic)r, %(ftxt)r
n = %(n)d; R = %(R)r; L = %(L)r
K = Kripke(S=list(range(n)), R=R, L={k: set(v) for k, v in L.items()})
mod = {'CTL': CTL, 'LTL': LTL, 'CTLS': CTLS}[logic]
f = mod.Parser()(ftxt)
want = explicit.sat_states(explicit.Struct(n, R, L), CTLS.Parser()(%(ctls_txt)r))
try:
    got = mod.modelcheck(K, ftxt)
except Exception as e:
    got = 'raised %%s: %%s' %% (type(e).__name__, e)
print('K: R=%%s L=%%s' %% (R, L)); print('formula:', ftxt); print('modelcheck ->', got); print('reference semantics ->', want)
if got != want:
    print('VIOLATION of %(pid)s'); sys.exit(1)
print('no violation on this input')
'''


def mc_replay(pid, rec, model=None):
    from .common import ROOT
    m = model if model is not None else rec['model']
    R, L = model_to_structure(m, rec['n'], ('p', 'q'), rec.get('fixed'))
    ftxt = rec['formula']
    body = MC_REPLAY % dict(root=ROOT, logic=rec['logic'], ftxt=ftxt, n=rec['n'], R=R, L=L, pid=pid, ctls_txt=ftxt)
    path = write_replay(pid, body)
    ok, out = run_replay(path)
    return (path if ok else None), out


# ------------------------------------------------------------------ lasso certificates for the oracle (C02)
def certify_task(ftxts, n=2, aps=('p', 'q')):
    """for every formula A g and state s: a structure on which the ORACLE excludes s, and a concrete lasso from s
    satisfying not g, found by the solver and re-evaluated by the independent lasso evaluator"""
    from .smt import SmtProc
    out = []
    for ftxt in ftxts:
        see.reset()
        f = parse('LTL', ftxt)
        g = f.subformula(0)
        T, lab = matrix(n), labels(n, aps)
        dp = oracles.Depths('fixed', inner=n * 8, outer=n * 8)
        want = oracles.ctls(f, T, lab, n, depths=dp)
        smt = SmtProc(timeout_ms=60000)
        rec = dict(formula=ftxt, certified=0, failed=[], never_excluded=0)
        for s in range(n):
            r = smt.check(total_of_nodes(T, n), b_not(want[s]), b_not(dp.unstable))
            if r != 'sat':
                rec['never_excluded'] += 1
                continue
            m = smt.values()
            R, L = model_to_structure(m, n, aps)
            lasso = find_lasso(g, s, n, R, L)
            if lasso is None:
                rec['failed'].append(dict(state=s, R=R, L=L))
            else:
                rec['certified'] += 1
                rec['example'] = dict(state=s, R=R, L=L, lasso=lasso)
        smt.close()
        out.append(rec)
    return out


def total_of_nodes(T, n):
    return b_and(*[b_or(*T[i]) for i in range(n)])


def find_lasso(g, s, n, R, L, kmax=None):
    """concrete lasso x_0=s .. x_{k-1} -> x_l in (R, L) whose word violates g; search by SAT over one-hot position states"""
    from .smt import SmtProc
    kmax = kmax or 4 * n + 4
    for k in range(1, kmax + 1):
        for l in range(k):
            see.reset()
            x = [[var('x%d_%d' % (i, a)) for a in range(n)] for i in range(k)]
            wf = [b_and(b_or(*x[i]), *[b_not(b_and(x[i][a], x[i][b])) for a in range(n) for b in range(a + 1, n)]) for i in range(k)]
            wf.append(x[0][s])
            for i in range(k):
                j = i + 1 if i + 1 < k else l
                wf.append(b_or(*[b_and(x[i][a], x[j][b]) for (a, b) in R]))
            val = lambda name, i: b_or(*[x[i][a] for a in range(n) if name in L[a]])
            viol = b_not(oracles.lasso_eval(g, k, l, val)[0])
            smt = SmtProc(timeout_ms=30000)
            r = smt.check(viol, *wf)
            if r == 'sat':
                m = smt.values()
                smt.close()
                word = [[a for a in range(n) if m.get('x%d_%d' % (i, a))][0] for i in range(k)]
                # independent re-evaluation on the concrete word
                cval = lambda name, i: name in L[word[i]]
                ok = oracles.lasso_eval(g, k, l, cval)[0] is False and all((word[i], word[i + 1 if i + 1 < k else l]) in R for i in range(k))
                if ok:
                    return dict(states=word, loop_to=l)
            else:
                smt.close()
    return None


# ------------------------------------------------------------------ C15: get_fair_states
def fair_states_task(n, nfair, perm=None, fixed=None, history=None):
    """Kripke.get_fair_states(F) on all total structures with n states and all lists F of nfair state sets:
    (i) result is a subset of the fair states (always), (ii) equal to them outside known-finding class D7,
    (iii) the structure is not modified, no exception."""
    see.reset()
    fixed = dict(fixed or {})
    if history:
        fixed['t_%d_%d' % tuple(history)] = False       # add_edge's precondition: the edge is not there yet
    fv = lambda nm_: fixed[nm_] if nm_ in fixed else var(nm_)
    t0 = time.time()
    fair_names = ['f%d' % k for k in range(nfair)]
    extra = ['%s_%d' % (fn_, i) for fn_ in fair_names for i in range(n)]
    start_lemma_log(SEED)
    from .harness import KRIPKE_MODS
    h = sym_kripke(n, aps=(), mods=KRIPKE_MODS, fold=True, care_total=True, extra=extra, perm=perm, bounds={}, fixed=fixed)
    Fl = []
    for fn_ in fair_names:
        P = MSet()
        for i in range(n):
            P.put(i, fv('%s_%d' % (fn_, i)))
        Fl.append(P)
    fixed_o = fixed
    if history:
        # history: ask once, add the edge `history` through the structure's own API, ask again - the second answer is about the
        # structure as it is NOW (nothing computed for the first answer may be reused stale)
        h.ctx.call(h.ctx.getattr1(h.K, 'get_fair_states'), [MList(Fl)], {})
        h.ctx.call(h.ctx.getattr1(h.K, 'add_edge'), [history[0], history[1]], {})
        fixed_o = dict(fixed)
        fixed_o['t_%d_%d' % tuple(history)] = True
    snap = snapshot(h.K)
    res = h.ctx.call(h.ctx.getattr1(h.K, 'get_fair_states'), [MList(Fl)], {})
    resv = vec(res, range(n))
    excg, unw, mut = exc_guard(h.fr), unwind_guard(h.vm), mutated(h.K, snap)
    encoded = sorted(h.vm.encoded)
    kinds = exc_kinds(h.fr)
    t1 = time.time()
    dp0 = oracles.Depths('stable')
    oracles.fair_states(matrix(n, fixed=fixed_o), n, [[fv('%s_%d' % (fn_, i)) for i in range(n)] for fn_ in fair_names], dp0)
    d = Decider(total_text(n, fixed=fixed))
    T2 = matrix(n, fixed=fixed_o)
    fair2 = [[fv('%s_%d' % (fn_, i)) for i in range(n)] for fn_ in fair_names]
    dp = oracles.Depths('fixed', inner=dp0.max_inner, outer=dp0.max_outer)
    want = oracles.fair_states(T2, n, fair2, dp)
    rec = dict(kind='get_fair_states', n=n, nfair=nfair, fixed=fixed, history=list(history) if history else None, encode_s=round(t1 - t0, 2), exc=kinds, encoded=encoded)
    sound_bad = [b_and(a, b_not(w)) for a, w in zip(resv, want)]
    rec['sound'] = d.violated(*(sound_bad + [excg, unw, dp.unstable] + mut))
    if rec['sound'] == 'sat':
        rec['model'] = d.model_of(['(or false %s)' % ' '.join(d.term(b) for b in sound_bad + [excg, unw] + mut)])
    # backward closure: a state with a successor in the result is in the result (fair paths can be prefixed) - on EVERY input
    closed_bad = [b_and(T2[i][j], resv[j], b_not(resv[i])) for i in range(n) for j in range(n)]
    rec['closed'] = d.violated(*closed_bad)
    if rec['closed'] == 'sat':
        rec['closed_model'] = d.model_of(['(or false %s)' % ' '.join(d.term(b) for b in closed_bad)])
    rec['all_inputs_exact'] = d.differ(resv, want)                      # expected sat while D7 is open
    if rec['all_inputs_exact'] == 'sat':
        rec['d7_model'] = d.differ_model(resv, want)
    d.assume(b_not(d7_class(T2, fair2, n)))
    rec['verdict'] = d.differ(resv, want)
    if rec['verdict'] == 'sat':
        rec['model'] = d.differ_model(resv, want)
    empty_set = any(all(fixed.get('%s_%d' % (fn_, i)) is False for i in range(n)) for fn_ in fair_names)
    # (with a fairness set pinned to the empty set no path is fair: the result is empty on every structure, nothing to witness)
    rec['twin'] = 'sat' if empty_set else d.holds(resv[0])
    rec['audit'] = d.audit(batch=1000)
    rec.update(d.stats())
    d.close()
    return rec


FAIR_REPLAY = '''
sys.path.insert(0, %(root)r)
from pyModelChecking import Kripke
from verif import explicit
n = %(n)d; R = %(R)r; F = %(F)r
hist = %(hist)r
K = Kripke(S=list(range(n)), R=R)
if hist:
    first = K.get_fair_states([set(P) for P in F])
    K.add_edge(*hist)
    R = sorted(set(R) | {tuple(hist)})
    print('history: get_fair_states -> %%s, then add_edge%%s, then get_fair_states again' %% (first, tuple(hist)))
got = K.get_fair_states([set(P) for P in F])
want = explicit.E_path(explicit.Struct(n, R, {}), explicit.TRUE_TREE, [set(P) for P in F])
print('R=%%s F=%%s get_fair_states -> %%s ; states with a fair path -> %%s' %% (R, F, got, want))
if %(cond)s:
    print('VIOLATION of C15'); sys.exit(1)
print('no violation on this input')
'''


def fair_replay(rec, model, cond='got != want'):
    from .common import ROOT
    n = rec['n']
    model = dict(model or {})
    model.update(rec.get('fixed') or {})
    R = [(i, j) for i in range(n) for j in range(n) if model.get('t_%d_%d' % (i, j))]
    F = [[i for i in range(n) if model.get('f%d_%d' % (k, i))] for k in range(rec['nfair'])]
    path = write_replay('C15', FAIR_REPLAY % dict(root=ROOT, n=n, R=R, F=F, cond=cond, hist=rec.get('history')))
    ok, out = run_replay(path)
    return (path if ok else None), out


MCF_REPLAY = '''
sys.path.insert(0, %(root)r)
from pyModelChecking import Kripke, CTL, LTL, CTLS
from verif import explicit
logic, ftxt = %(logic)r, %(ftxt)r
n = %(n)d; R = %(R)r; L = %(L)r; F = %(F)r
K = Kripke(S=list(range(n)), R=R, L={k: set(v) for k, v in L.items()})
mod = {'CTL': CTL, 'LTL': LTL, 'CTLS': CTLS}[logic]
want = explicit.sat_states(explicit.Struct(n, R, L), CTLS.Parser()(ftxt), [set(P) for P in F])
try:
    got = mod.modelcheck(K, ftxt, F=[set(P) for P in F])
except Exception as e:
    got = 'raised %%s: %%s' %% (type(e).__name__, e)
print('K: R=%%s L=%%s F=%%s' %% (R, L, F)); print('formula:', ftxt); print('modelcheck ->', got); print('fair semantics ->', want)
if got != want:
    print('VIOLATION of C15'); sys.exit(1)
print('no violation on this input')
'''


def mcf_replay(rec, model):
    from .common import ROOT
    n = rec['n']
    model = dict(model)
    model.update(rec.get('fixed') or {})
    R, L = model_to_structure(model, n, ('p', 'q'), rec.get('fixed'))
    F = [[i for i in range(n) if model.get('f%d_%d' % (k, i))] for k in range(rec.get('nfair') or 0)]
    path = write_replay('C15', MCF_REPLAY % dict(root=ROOT, logic=rec['logic'], ftxt=rec['formula'], n=n, R=R, L=L, F=F))
    ok, out = run_replay(path)
    return (path if ok else None), out


# ------------------------------------------------------------------ C04: semantic laws, implementation vs implementation
def ctl_laws(F, G):
    P = lambda s: s if s.isalnum() else '(%s)' % s
    f, g = P(F), P(G)
    NOT = lambda a: ('not', a)
    AND = lambda a, b: ('and', a, b)
    OR = lambda a, b: ('or', a, b)
    return [
        ('complement', 'not %s' % f, NOT(F)),
        ('and', '(%s and %s)' % (f, g), AND(F, G)),
        ('or', '(%s or %s)' % (f, g), OR(F, G)),
        ('implies', '(%s --> %s)' % (f, g), OR(NOT(F), G)),
        ('AX=notEXnot', 'A X %s' % f, NOT('E X not %s' % f)),
        ('AG=notEFnot', 'A G %s' % f, NOT('E F not %s' % f)),
        ('AF=notEGnot', 'A F %s' % f, NOT('E G not %s' % f)),
        ('AU=notERnot', 'A(%s U %s)' % (f, g), NOT('E((not %s) R (not %s))' % (f, g))),
        ('AR=notEUnot', 'A(%s R %s)' % (f, g), NOT('E((not %s) U (not %s))' % (f, g))),
        ('EU expansion', 'E(%s U %s)' % (f, g), OR(G, AND(F, 'E X (E(%s U %s))' % (f, g)))),
        ('AU expansion', 'A(%s U %s)' % (f, g), OR(G, AND(F, 'A X (A(%s U %s))' % (f, g)))),
        ('AG expansion', 'A G %s' % f, AND(F, 'A X (A G %s)' % f)),
        ('EG expansion', 'E G %s' % f, AND(F, 'E X (E G %s)' % f)),
        ('AF expansion', 'A F %s' % f, OR(F, 'A X (A F %s)' % f)),
        ('EF expansion', 'E F %s' % f, OR(F, 'E X (E F %s)' % f)),
        ('ER expansion', 'E(%s R %s)' % (f, g), AND(G, OR(F, 'E X (E(%s R %s))' % (f, g)))),
    ]


def ltl_laws(F, G):
    P = lambda s: s if s.isalnum() else '(%s)' % s
    f, g = P(F), P(G)
    AND = lambda a, b: ('and', a, b)
    return [
        ('A distributes over and', 'A (%s and %s)' % (f, g), AND('A %s' % f, 'A %s' % g)),
        ('G expansion', 'A G %s' % f, ('same', 'A (%s and X G %s)' % (f, f))),
        ('U expansion', 'A (%s U %s)' % (f, g), ('same', 'A (%s or (%s and X (%s U %s)))' % (g, f, f, g))),
        ('F expansion', 'A F %s' % f, ('same', 'A (%s or X F %s)' % (f, f))),
        ('R duality', 'A (%s R %s)' % (f, g), ('same', 'A not ((not %s) U (not %s))' % (f, g))),
        ('double negation', 'A not not %s' % f, ('same', 'A %s' % f)),
        ('implication', 'A (%s --> %s)' % (f, g), ('same', 'A ((not %s) or %s)' % (f, g))),
    ]


def law_task(logic, n, pairs, opts=None):
    """for each (f, g): evaluate all formulas of the law schemas by <logic>.modelcheck on ONE symbolic structure and let
    the solver prove the identities between the returned vectors (no reference semantics involved)"""
    opts = dict(opts or {})
    aps = ('p', 'q')
    mcmod = importlib.import_module('pyModelChecking.%s.model_checking' % logic)
    out = []
    for (F, G) in pairs:
        see.reset()
        t0 = time.time()
        rec = dict(logic=logic, n=n, pair=(F, G), laws={})
        try:
            start_lemma_log(SEED)
            h = sym_kripke(n, aps=aps, mods=LOGIC_MODS[logic], fold=True, care_total=True, bounds=bounds_for(n, logic))
            cache = {}

            def ev(x):
                if isinstance(x, tuple):
                    if x[0] == 'not':
                        return [b_not(a) for a in ev(x[1])]
                    if x[0] == 'same':
                        return ev(x[1])
                    a, b = ev(x[1]), ev(x[2])
                    return [(b_and if x[0] == 'and' else b_or)(u, v) for u, v in zip(a, b)]
                if x not in cache:
                    cache[x] = vec(h.ctx.call(mcmod.modelcheck, [h.K, parse(logic, x)], {}), h.states)
                return cache[x]
            laws = (ltl_laws if logic == 'LTL' else ctl_laws)(F, G)
            pairs_v = [(nm_, ev(lhs), ev(rhs)) for nm_, lhs, rhs in laws]
            excg, unw = exc_guard(h.fr), unwind_guard(h.vm)
            rec.update(encode_s=round(time.time() - t0, 2), encoded=sorted(h.vm.encoded), exc=exc_kinds(h.fr), calls=len(cache))
            d = Decider(total_text(n), timeout_ms=300000)
            rec['noexc'] = d.violated(excg, unw) if (excg is not False or unw is not False) else 'unsat'
            for nm_, a, b in pairs_v:
                r = d.differ(a, b)
                rec['laws'][nm_] = r
                if r == 'sat':
                    rec.setdefault('models', {})[nm_] = d.differ_model(a, b)
            rec['audit'] = d.audit(batch=1000)
            rec.update(d.stats())
            d.close()
        except see.Unsupported as e:
            rec.update(error='Unsupported: %s at %s' % (e, see.TRACE[-3:]))
        out.append(rec)
    return out


LAW_REPLAY = '''
from pyModelChecking import Kripke, CTL, LTL, CTLS
logic = %(logic)r; n = %(n)d; R = %(R)r; L = %(L)r
law = %(law)r; lhs = %(lhs)r; rhs = %(rhs)r
mod = {'CTL': CTL, 'LTL': LTL, 'CTLS': CTLS}[logic]
K = Kripke(S=list(range(n)), R=R, L={k: set(v) for k, v in L.items()})
S = set(range(n))
def ev(x):
    if isinstance(x, (tuple, list)):
        if x[0] == 'not': return S - ev(x[1])
        if x[0] == 'same': return ev(x[1])
        return (ev(x[1]) & ev(x[2])) if x[0] == 'and' else (ev(x[1]) | ev(x[2]))
    return set(mod.modelcheck(K, x))
a, b = ev(lhs), ev(rhs)
print('K: R=%%s L=%%s' %% (R, L)); print('law %%s: %%s -> %%s ; %%s -> %%s' %% (law, lhs, a, rhs, b))
if a != b:
    print('VIOLATION of C04'); sys.exit(1)
print('no violation on this input')
'''


def law_replay(rec, law_name):
    F, G = rec['pair']
    laws = (ltl_laws if rec['logic'] == 'LTL' else ctl_laws)(F, G)
    lhs, rhs = [(l, r) for nm_, l, r in laws if nm_ == law_name][0]
    R, L = model_to_structure(rec['models'][law_name], rec['n'], ('p', 'q'))
    path = write_replay('C04', LAW_REPLAY % dict(logic=rec['logic'], n=rec['n'], R=R, L=L, law=law_name, lhs=lhs, rhs=rhs))
    ok, out = run_replay(path)
    return (path if ok else None), out


GEN_REPLAY = '''
sys.path.insert(0, %(root)r)
from pyModelChecking import Kripke, CTL, LTL, CTLS
from verif import explicit
n = %(n)d; R = %(R)r; L = %(L)r
states = %(states)s
order = %(order)r
junk = %(junk)s
names = %(names)r                  # atom name used in the structure for p / q
mods = {'CTL': CTL, 'LTL': LTL, 'CTLS': CTLS}
def build():
    return Kripke(S=[states[i] for i in order], R=[(states[a], states[b]) for a in order for b in order if (a, b) in R],
                  L={states[i]: set([names[a] for a in L[i]] + list(junk)) for i in order})
FAIR = %(fair)r                    # fairness sets (state indices) the symbolic run passed as F, None if it passed no F
def run(logic, formula, K, **kw):
    if FAIR is not None and 'F' not in kw:
        kw['F'] = [set(states[i] for i in P) for P in FAIR]
    try:
        return mods[logic].modelcheck(K, formula, **kw)
    except Exception as e:
        return 'raised %%s: %%s' %% (type(e).__name__, e)
K = build()
before = str(sorted(map(repr, K.transitions()))) + str({repr(s): sorted(map(repr, K.labels(s))) for s in K.states()}) + repr(sorted(map(repr, K.S0)))
idx = {repr(states[i]): i for i in range(n)}
def norm(r): return {idx[repr(s)] for s in r} if isinstance(r, (set, frozenset, list)) and all(repr(s) in idx for s in r) else r
%(body)s
print('K: R=%%s L=%%s states=%%s order=%%s' %% (R, L, states, order))
if bad:
    print('VIOLATION of %(pid)s:', bad); sys.exit(1)
print('no violation on this input')
'''


def gen_replay(pid, rec, model, body, opts=None):
    """replay with the presentation (state objects, order, label names, junk labels) the symbolic run used"""
    from .common import ROOT
    opts = opts or {}
    n = rec['n']
    aps = tuple(opts.get('aps', ('p', 'q')))
    R, L = model_to_structure(model or {}, n, aps, rec.get('fixed'))
    if not all(any(a == i for a, b in R) for i in range(n)):
        R = [(i, j) for i in range(n) for j in range(n)]          # no structure came with the finding: any total one will do
        L = {i: (['p'] if i % 2 == 0 else ['q']) for i in range(n)}
    states = opts.get('states') or list(range(n))
    names = opts.get('label_pool') or {a: a for a in aps}
    order = rec.get('perm') or list(range(n))
    fair = None
    if opts.get('fair') is not None:
        mm = dict(model or {})
        mm.update(rec.get('fixed') or {})
        fair = [[i for i in range(n) if (True if opts.get('fair_const') else mm.get('f%d_%d' % (k_, i)))] for k_ in range(opts['fair'])]
    src = GEN_REPLAY % dict(root=ROOT, n=n, R=R, L=L, states=repr(states), order=list(order), junk=repr(list(opts.get('junk') or [])),
                            names=names, body=body, pid=pid, fair=fair)
    path = write_replay(pid, src)
    ok, out = run_replay(path)
    return (path if ok else None), out
