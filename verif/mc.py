"""The model-checking obligations (C01-C04, C06, C07, C15, C19): the real modelcheck functions executed on a
Kripke structure whose transitions and labels are unknowns, compared with the oracle circuits by the solver."""
import time, itertools, importlib
from . import see, oracles
from .see import (b_and, b_or, b_not, b_xor, b_iff, fold_b, is_c, alts_of, MSet, MDict, MList, MObj, SChoice, var, TT)
from .harness import (sym_kripke, vec, extra_keys, exc_guard, exc_kinds, unwind_guard, matrix, labels, total_text,
                      model_to_structure, CTL_MODS, LTL_MODS, ALL_MC_MODS)
from .decide import Decider, start_lemma_log
from .common import SEED, write_replay, run_replay

LOGIC_MODS = {'CTL': CTL_MODS, 'LTL': LTL_MODS, 'CTLS': ALL_MC_MODS}


def parse(logic, ftxt):
    mod = importlib.import_module('pyModelChecking.' + logic)
    return mod.Parser()(ftxt)


def bounds_for(n, logic):
    # code-derived bounds (DESIGN 2.4): reachability pops every node at most once; the SCC work loop runs |E|+n times per call
    b = {'DiGraph.get_reachable_set_from': 64 if logic != 'CTL' else n, 'compute_SCCs': 400 if logic != 'CTL' else n * n + n}
    return b


# ------------------------------------------------------------------ heap snapshots (C07)
def heap_sets(K):
    out = []
    for attr in ('_next', '_labels'):
        d = K.attrs.get(attr)
        if isinstance(d, MDict):
            for k in d.order:
                for (g, s) in alts_of(d.vals[k]):
                    out.append(s)
    s0 = K.attrs.get('S0')
    if s0 is not None:
        out += [s for (g, s) in alts_of(s0)]
    return out


def snapshot(K):
    snap = {'objs': {a: K.attrs.get(a) for a in ('_next', '_labels', 'S0')}, 'bits': {}}
    for attr in ('_next', '_labels'):
        d = K.attrs[attr]
        for k in d.order:
            snap['bits'][attr, k, None] = d.present[k]
            snap['bits'][attr, k, 'obj'] = d.vals[k]
            for (g, s) in alts_of(d.vals[k]):
                for e, b in s.bits.items():
                    snap['bits'][attr, k, ('e', id(s), e)] = b
    for (g, s) in alts_of(K.attrs['S0']):
        for e, b in s.bits.items():
            snap['bits']['S0', None, ('e', id(s), e)] = b
    return snap


def mutated(K, snap):
    """list of guards: some part of the caller's structure differs from its snapshot"""
    bad = []
    for a, o in snap['objs'].items():
        if K.attrs.get(a) is not o:
            bad.append(True)
            return bad
    for attr in ('_next', '_labels'):
        d = K.attrs[attr]
        for k in d.order:
            if (attr, k, None) not in snap['bits']:
                bad.append(d.present[k])
                continue
            bad.append(b_xor(d.present[k], snap['bits'][attr, k, None]))
            if d.vals[k] is not snap['bits'][attr, k, 'obj']:
                bad.append(d.present[k])
                continue
            for (g, s) in alts_of(d.vals[k]):
                for e, b in s.bits.items():
                    old = snap['bits'].get((attr, k, ('e', id(s), e)), False)
                    bad.append(b_and(d.present[k], g, b_xor(b, old)))
    for (g, s) in alts_of(K.attrs['S0']):
        for e, b in s.bits.items():
            bad.append(b_and(g, b_xor(b, snap['bits'].get(('S0', None, ('e', id(s), e)), False))))
    return [b for b in bad if b is not False]


def result_shape(res, K):
    """(guard: result is not a set, bool: result object shared with the structure)"""
    notset, shared = False, False
    hs = heap_sets(K)
    for (g, s) in alts_of(res):
        if isinstance(s, MObj) and hasattr(s, 'base'):
            continue
        if isinstance(s, MSet):
            if any(s is x for x in hs):
                shared = True
        elif isinstance(s, (set,)):
            pass
        else:
            notset = b_or(notset, g)
    return notset, shared


# ------------------------------------------------------------------ the task
def mc_task(logic, n, ftxts, opts=None):
    """for each formula text: run <logic>.modelcheck symbolically on all total structures with n states,
    decide result == oracle, no exception, loops complete, structure untouched, result shape.
    opts: fold, fixed, perm, aps, recall (call again after mutating the result), audit, order_states"""
    opts = dict(opts or {})
    fold = opts.get('fold', True)
    fixed = opts.get('fixed') or {}
    perm = opts.get('perm')
    aps = tuple(opts.get('aps', ('p', 'q')))
    audit = opts.get('audit', True)
    lab_pool = opts.get('label_pool')
    states = opts.get('states')
    mcmod = importlib.import_module('pyModelChecking.%s.model_checking' % logic)
    out = []
    for ftxt in ftxts:
        see.reset()
        t0 = time.time()
        rec = dict(formula=ftxt, logic=logic, n=n, perm=perm, fold=fold, fixed=fixed)
        try:
            f = parse(logic, ftxt)
            fstr0 = str(f)
            if fold:
                start_lemma_log(SEED)
            h = sym_kripke(n, aps=aps, mods=LOGIC_MODS[logic], fold=fold, care_total=True, fixed=fixed, perm=perm,
                           bounds=bounds_for(n, logic), states=states, label_pool=lab_pool)
            if h is None:
                rec.update(verdict='unsat', skipped='no total structure on this fork', queries=0, solver_s=0, gates=0)
                out.append(rec)
                continue
            st = h.states
            snap = snapshot(h.K)
            res = h.ctx.call(mcmod.modelcheck, [h.K, f], {})
            resv = vec(res, st)
            bad_exact = [extra_keys(res, st)]
            excg = exc_guard(h.fr)
            kinds = exc_kinds(h.fr)
            notset, shared = result_shape(res, h.K)
            mut = mutated(h.K, snap)
            resv2 = None
            if opts.get('recall'):
                for (g, s) in alts_of(res):
                    if isinstance(s, MSet):
                        for k in list(s.bits):
                            s.put(k, b_not(s.bits[k]))
                        s.put('junk', True)
                res2 = h.ctx.call(mcmod.modelcheck, [h.K, f], {})
                resv2 = vec(res2, st)
                excg = exc_guard(h.fr)
                mut = mutated(h.K, snap)
            unw = unwind_guard(h.vm)
            t1 = time.time()
            rec.update(encode_s=round(t1 - t0, 2), exc=kinds, loops={('%s:%d' % k): v for k, v in h.vm.stats['loops'].items()},
                       encoded=sorted(h.vm.encoded), shared=shared, formula_changed=(str(f) != fstr0), stmts=h.vm.stats['stmts'])
            # ---- decide
            care = total_text(n, fixed=fixed)
            d = Decider(care, timeout_ms=opts.get('timeout_ms', 300000), record=bool(opts.get('cross')))
            T2, lab2 = matrix(n, fixed=fixed), labels(n, aps, fixed=fixed)
            if logic == 'CTL':
                want = oracles.ctl(f, T2, lab2, n)
            else:
                dp = oracles.Depths('fixed', inner=n * 2 ** 5, outer=n * 2 ** 5) if False else None
                want = ctls_oracle_raw(f, T2, lab2, n, d, rec, fixed)
            allbad = bad_exact + [excg, unw, notset] + mut
            r_all = d.differ(resv, want, allbad)
            if r_all == 'unsat':
                # one query proves every aspect at once
                rec.update(verdict='unsat', noexc='unsat', unwind='unsat', pure='unsat', isset='unsat')
            else:
                r = d.differ(resv, want, bad_exact)
                rec['verdict'] = r
                if r == 'sat':
                    rec['model'] = d.differ_model(resv, want, bad_exact)
                rec['noexc'] = d.violated(excg) if excg is not False else 'unsat'
                if rec['noexc'] == 'sat':
                    rec['exc_model'] = d.model_of([d.term(excg)])
                rec['unwind'] = d.violated(unw) if unw is not False else 'unsat'
                rec['pure'] = d.violated(*mut) if mut else 'unsat'
                if rec['pure'] == 'sat':
                    rec['pure_model'] = d.model_of(['(or false %s)' % ' '.join(d.term(b) for b in mut)])
                rec['isset'] = d.violated(notset) if notset is not False else 'unsat'
            if resv2 is not None:
                rec['recall'] = d.differ(resv2, want)
            # twin: the answer is not a constant vector (the structure matters) and the assumption is satisfiable
            rec['care_sat'] = d.holds()
            nontriv = any(not is_c(x) for x in resv)
            rec['nontrivial'] = bool(nontriv) and d.holds(resv[0]) == 'sat' and d.holds(b_not(resv[0])) == 'sat' if not is_c(resv[0]) else bool(nontriv)
            if fold and audit:
                rec['audit'] = d.audit(batch=1000)
            if opts.get('cross'):
                rec['cross'] = d.cross()
            rec.update(d.stats())
            d.close()
        except see.Unsupported as e:
            rec.update(verdict='unsupported', error='Unsupported: %s at %s' % (e, see.TRACE[-3:]))
        out.append(rec)
    return out


def ctls_oracle_raw(f, T2, lab2, n, d, rec, fixed):
    """CTL*/LTL oracle as a raw circuit: unrolling depths found on a reduced twin first, then emitted un-reduced with
    that depth; the solver also proves that one more unrolling changes nothing (stability obligation)."""
    raise NotImplementedError


# ------------------------------------------------------------------ replay
MC_REPLAY = '''
sys.path.insert(0, %(root)r)
from pyModelChecking import Kripke, CTL, LTL, CTLS
from verif import explicit
logic, ftxt = %(logic)r, %(ftxt)r
n = %(n)d; R = %(R)r; L = %(L)r
K = Kripke(S=list(range(n)), R=R, L={k: set(v) for k, v in L.items()})
mod = {'CTL': CTL, 'LTL': LTL, 'CTLS': CTLS}[logic]
f = mod.Parser()(ftxt)
want = explicit.sat_states(explicit.Struct(n, R, L), CTLS.Parser()(%(ctls_txt)r))
try:
    got = mod.modelcheck(K, ftxt)
except Exception as e:
    got = 'raised %%s: %%s' %% (type(e).__name__, e)
print('K: R=%%s L=%%s' %% (R, L)); print('formula:', ftxt); print('modelcheck ->', got); print('reference semantics ->', want)
if got != want:
    print('VIOLATION of %(pid)s'); sys.exit(1)
print('no violation on this input')
'''


def mc_replay(pid, rec, model=None):
    from .common import ROOT
    m = model if model is not None else rec['model']
    R, L = model_to_structure(m, rec['n'], ('p', 'q'), rec.get('fixed'))
    ftxt = rec['formula']
    body = MC_REPLAY % dict(root=ROOT, logic=rec['logic'], ftxt=ftxt, n=rec['n'], R=R, L=L, pid=pid, ctls_txt=ftxt)
    path = write_replay(pid, body)
    ok, out = run_replay(path)
    return (path if ok else None), out
