#!/usr/bin/env python3
"""Rewrites the measured columns (obligations, wall time) of the quick-tier table in DESIGN.md section 8 from evidence/*.json."""
import json, re, sys
p = '/verif/DESIGN.md'
s = open(p).read()
out = []
for line in s.splitlines():
    m = re.match(r'^\| (C\d\d) \| (.*) \| ([\d,]+) \| ([^|]+) \|$', line)
    if m:
        pid = m.group(1)
        try:
            d = json.load(open('/verif/evidence/%s.json' % pid))
            if d.get('tier') == 'quick':
                ob = d['coverage']['obligations']
                w = d['wall_s']
                wall = ('%d s' % round(w)) if w < 90 else ('%.1f min' % (w / 60))
                line = '| %s | %s | %s | %s |' % (pid, m.group(2), format(ob, ','), wall)
        except Exception as e:
            print('skip', pid, e, file=sys.stderr)
    out.append(line)
open(p, 'w').write('\n'.join(out) + '\n')
