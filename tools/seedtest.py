#!/usr/bin/env python3
"""Confirm a seeded change (patch.diff + demo.py from /tmp/seed_<name>/) in a scratch worktree, run the registered checks
against it (applied to /repo, undone straight afterwards) and file it under /verif/seeded/<name>/.
usage: seedtest.py <name> <property id> [--checks C01,C04] [--tier quick] [--src DIR] [--needs TEXT] [--no-file]"""
import argparse, json, os, shutil, subprocess, sys, time

ap = argparse.ArgumentParser()
ap.add_argument('name')
ap.add_argument('pid')
ap.add_argument('--checks')
ap.add_argument('--tier', default='quick')
ap.add_argument('--src')
ap.add_argument('--needs', default='')
ap.add_argument('--no-file', action='store_true')
ap.add_argument('--in-repo', action='store_true')
a = ap.parse_args()
src = a.src or '/tmp/seed_%s' % a.name
patch = os.path.join(src, 'patch.diff')
demo = os.path.join(src, 'demo.py')
PY = '/venv/bin/python'


def sh(cmd, **kw):
    return subprocess.run(cmd, shell=True, capture_output=True, text=True, **kw)


wt = '/tmp/wt_confirm_%s' % a.name
sh('git -C /repo worktree remove --force %s' % wt)
r = sh('git -C /repo worktree add --detach %s HEAD' % wt)
assert r.returncode == 0, r.stderr
res = dict(name=a.name, property=a.pid)
try:
    r = sh('git -C %s apply %s' % (wt, patch))
    res['applies'] = r.returncode == 0
    assert r.returncode == 0, 'patch does not apply: ' + r.stderr
    env = dict(os.environ, PYTHONPATH=wt)
    r = sh('cd %s && %s -m pytest -q -p no:cacheprovider pyModelChecking/tests 2>&1 | tail -1' % (wt, PY), env=env)
    res['tests_with_change'] = r.stdout.strip()
    r = sh('cd /tmp && %s %s' % (PY, demo), env=env, timeout=600)
    res['demo_with_change_exit'] = r.returncode
    res['demo_with_change_tail'] = (r.stdout + r.stderr).strip().splitlines()[-3:]
    sh('git -C %s checkout -- .' % wt)
    r = sh('cd /tmp && %s %s' % (PY, demo), env=env, timeout=600)
    res['demo_without_change_exit'] = r.returncode
finally:
    sh('git -C /repo worktree remove --force %s' % wt)
ok = '65 passed' in res.get('tests_with_change', '') and res.get('demo_with_change_exit', 0) != 0 and res.get('demo_without_change_exit', 1) == 0
res['confirmed'] = ok
print(json.dumps(res, indent=1))
if not ok:
    sys.exit(2)
checks = (a.checks or a.pid).split(',')
# the checks read the repository from $VERIF_REPO (default /repo): a scratch worktree with the patch applied keeps /repo itself
# untouched, so several seeded changes can be tried at once.  (--in-repo applies the patch to /repo and undoes it afterwards.)
res['checks'] = {}
if a.in_repo:
    assert sh('git -C /repo status --porcelain').stdout.strip() == '', '/repo is not clean'
    r = sh('git -C /repo apply %s' % patch)
    assert r.returncode == 0, r.stderr
    target = '/repo'
else:
    target = '/tmp/wt_run_%s' % a.name
    sh('git -C /repo worktree remove --force %s' % target)
    r = sh('git -C /repo worktree add --detach %s HEAD' % target)
    assert r.returncode == 0, r.stderr
    r = sh('git -C %s apply %s' % (target, patch))
    assert r.returncode == 0, r.stderr
try:
    for c in checks:
        t0 = time.time()
        ev = '/verif/evidence/%s.json' % c
        saved = open(ev).read() if os.path.exists(ev) else None
        r = sh('cd /verif && VERIF_REPO=%s ./check %s --tier %s' % (target, c, a.tier), timeout=7200)
        if saved is not None:
            open(ev, 'w').write(saved)
        lines = r.stdout.strip().splitlines()
        viol = [l for l in lines if l.startswith('VIOLATION')]
        res['checks'][c] = dict(exit=r.returncode, violations=len(viol), first=[l for l in lines if l.startswith('   ')][:2], summary=lines[-1:] if lines else [], secs=round(time.time() - t0))
        print(c, res['checks'][c])
finally:
    if a.in_repo:
        sh('git -C /repo checkout -- .')
        assert sh('git -C /repo status --porcelain').stdout.strip() == ''
    else:
        sh('git -C /repo worktree remove --force %s' % target)
caught = [c for c, v in res['checks'].items() if v['exit'] == 1 and v['violations'] > 0]
res['caught_by'] = caught
print('CAUGHT BY', caught)
if not a.no_file:
    d = '/verif/seeded/%s' % a.name
    os.makedirs(d, exist_ok=True)
    shutil.copy(patch, os.path.join(d, 'patch.diff'))
    shutil.copy(demo, os.path.join(d, 'demo.py'))
    for nf in ('notes.md', 'notes.txt'):
        if os.path.exists(os.path.join(src, nf)):
            shutil.copy(os.path.join(src, nf), os.path.join(d, nf))
    meta = dict(breaks_property=a.pid, needs_to_manifest=a.needs, confirmed=dict(tests_with_change=res['tests_with_change'], demo_with_change_exit=res['demo_with_change_exit'],
                demo_without_change_exit=res['demo_without_change_exit']), ran=['pytest in a scratch worktree with the change', 'demo.py with and without the change',
                './check <id> --tier %s on /repo with the patch applied, then git checkout -- .' % a.tier], checks=res['checks'], caught_by=caught)
    json.dump(meta, open(os.path.join(d, 'meta.json'), 'w'), indent=1)
