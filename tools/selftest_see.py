#!/verif/.venv/bin/python
"""Differential self-test of the evaluator: every idiom function natively vs through verif.see on concrete inputs."""
import sys, traceback
sys.path.insert(0, '/verif')
from verif import see
from verif.harness import harness_ctx
from verif.selftest import idioms

CASES = {
    'aug_set_ops': [([1, 2, 3], [2, 3, 4])], 'set_methods': [([1, 2, 3], [3, 4])], 'set_remove_pop': [([1, 2, 3],), ([2],)],
    'dict_methods': [([('a', 1), ('b', 2), ('a', 3)],), ([],)], 'list_methods': [([3, 1, 2],)],
    'deque_bfs': [({0: [1, 2], 1: [3], 2: [3], 3: []}, 0)], 'enumerate_zip': [([1, 2, 3], [4, 5, 6])], 'any_all_minmax': [([1, 2, 3, 4],), ([5],)],
    'fstrings': [('x', 'y'), (1, [2])], 'cond_expr_and_chain': [(1, 0, 5), (7, 0, 5), (0, 0, 5)], 'while_else': [([1, 2],), ([1, -2],)],
    'try_finally': [({'a': 1}, 'a'), ({'a': 1}, 'b')], 'try_else': [({'a': 1}, 'a'), ({'a': 1}, 'b')], 'starred': [([1, 2, 3],)],
    'nested_helper': [([1, 2],)], 'gen_yield_from': [([1, 2],)], 'early_returns': [(None,), ([1],), (0,), (5,)],
    'dict_comp_and_sorted_key': [([('a', 2), ('b', 1), ('c', None)],)], 'assert_and_del': [([1, 2, 3],)], 'frozenset_keys': [([(1, 2), (2, 1), (3, 4)],)],
    'tuple_swap_and_divmod': [(7, 2), (0, 3)], 'string_ops': [('a,b ',)], 'sets_of_tuples': [([(0, 1), (1, 0), (1, 2)],)], 'call_defaults': [()],
    'class_with_props': [()],
}


def norm(v):
    """evaluator values -> plain Python"""
    if isinstance(v, see.MList):
        assert v.lo == v.hi, 'symbolic length'
        return [norm(x) for x in v.slots[:v.lo]]
    if isinstance(v, see.MSet):
        return {norm(k) for k, b in v.bits.items() if b is True}
    if isinstance(v, see.MDict):
        return {k: norm(v.vals[k]) for k in v.order if v.present[k] is True}
    if isinstance(v, tuple):
        return tuple(norm(x) for x in v)
    if isinstance(v, list):
        return [norm(x) for x in v]
    if isinstance(v, see.GSeq):
        return [norm(x) for g, x in v.entries if g is True]
    return v


def main():
    bad = 0
    for name, cases in CASES.items():
        fn = getattr(idioms, name)
        for args in cases:
            try:
                want = ('ok', fn(*args))
            except Exception as e:
                want = ('exc', type(e).__name__)
            see.reset()
            vm = see.VM({'verif.selftest.idioms'})
            ctx, fr = harness_ctx(vm)
            try:
                got = ctx.call(fn, list(args), {})
                excs = [type(e).__name__ for g, e, _ in fr.exc if g is not False]
                got = ('exc', excs[-1]) if excs else ('ok', norm(got))
            except Exception as e:
                got = ('evaluator failed', '%s: %s' % (type(e).__name__, str(e)[:120]))
            w = norm(want[1]) if want[0] == 'ok' else want[1]
            if got[0] != want[0] or got[1] != w:
                bad += 1
                print('MISMATCH %s%r\n   native   : %r\n   evaluator: %r' % (name, args, (want[0], w), got))
    print('%d idiom cases, %d mismatches' % (sum(len(c) for c in CASES.values()), bad))
    return 1 if bad else 0




# ---------------------------------------------------------------- symbolic differential part
def sym_main():
    import itertools
    from verif.see import MSet, var, b_and, b_not, is_c, alts_of, SBool, SChoice
    U = [0, 1, 2, 3]
    names = ['x%d' % i for i in U] + ['y%d' % i for i in U]
    bad = 0
    total = 0
    for name in ('sym_union_diff', 'sym_discard_remove', 'sym_remove_raises', 'sym_worklist', 'sym_dict_groups', 'sym_comprehensions', 'sym_early_exit', 'sym_try_flow', 'sym_iter_stack_dfs', 'sym_reversed_queue', 'sym_getattr_default', 'sym_global_state', 'sym_operator_reduce', 'sym_reduce_guarded', 'sym_genexp_raise', 'sym_first_free_name'):
        fn = getattr(idioms, name)
        nargs = fn.__code__.co_argcount
        see.reset()
        see.enable_tt(names)
        vm = see.VM({'verif.selftest.idioms'}, max_unroll=40, check_unroll=False)
        ctx, fr = harness_ctx(vm)
        args = []
        for pre in ('x', 'y')[:nargs]:
            m = MSet()
            for i in U:
                m.put(i, var('%s%d' % (pre, i)))
            args.append(m)
        try:
            res = ctx.call(fn, args, {})
        except Exception as e:
            print('SYMBOLIC %s: evaluator failed: %s: %s' % (name, type(e).__name__, str(e)[:150]))
            bad += 1
            continue

        def val_at(v, a):
            """concrete value of model value v under assignment index a"""
            g_at = lambda g: g if is_c(g) else bool((g.tt >> a) & 1)
            if isinstance(v, SBool):
                return g_at(v.e)
            if isinstance(v, SChoice):
                live = [x for g, x in v.alts if g_at(g)]
                return val_at(live[0], a) if live else None
            if isinstance(v, MSet):
                return {k for k, b in v.bits.items() if g_at(b)}
            if isinstance(v, see.MList):
                n_ = val_at(v.len, a) if not isinstance(v.len, int) else v.len
                return [val_at(x, a) for x in v.slots[:n_]]
            if isinstance(v, see.GSeq):
                return [val_at(x, a) for g, x in v.entries if g_at(g)]
            if isinstance(v, tuple):
                return tuple(val_at(x, a) for x in v)
            return v
        for a in range(1 << len(names)):
            asg = {nm: bool((a >> i) & 1) for i, nm in enumerate(names)}
            if nargs == 1 and any(asg['y%d' % i] for i in U):
                continue
            nat_args = [{i for i in U if asg['%s%d' % (pre, i)]} for pre in ('x', 'y')[:nargs]]
            total += 1
            try:
                want = ('ok', fn(*[set(s) for s in nat_args]))
            except Exception as e:
                want = ('exc', type(e).__name__)
            excs = [type(e).__name__ for g, e, _ in fr.exc if (g if is_c(g) else bool((g.tt >> a) & 1))]
            got = ('exc', excs[0]) if excs else ('ok', val_at(res, a))
            if got != want:
                bad += 1
                if bad < 12:
                    print('SYMBOLIC MISMATCH %s on %s: native %r evaluator %r' % (name, nat_args, want, got))
    print('symbolic part: %d (function, assignment) cases, %d mismatches' % (total, bad))
    return bad


if __name__ == '__main__':
    r1 = main()
    r2 = sym_main()
    sys.exit(1 if (r1 or r2) else 0)
