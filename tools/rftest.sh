#!/bin/sh
# usage: tools/rftest.sh <worktree with a behaviour-preserving refactoring> <check ids...>
# every check must still exit 0 (no alarm, not even an inconclusive one) on code where the properties hold
wt=$1; shift
(cd $wt && PYTHONPATH=$wt /venv/bin/python -m pytest -q -p no:cacheprovider pyModelChecking/tests 2>&1 | tail -1)
for c in "$@"; do
  cp /verif/evidence/$c.json /tmp/ev_$c.bak 2>/dev/null
  out=$(cd /verif && VERIF_REPO=$wt ./check $c 2>&1); rc=$?
  cp /tmp/ev_$c.bak /verif/evidence/$c.json 2>/dev/null; rm -f /tmp/ev_$c.bak
  echo "$c exit=$rc :: $(echo "$out" | tail -1 | cut -c1-160)"
  if [ $rc -ne 0 ]; then echo "$out" | grep -E "inconclusive|VIOLATION" | head -5 | cut -c1-400; fi
done
